"""C18 Senpai throttling stays within its floor/ceiling and respects its guards."""
import math
import random
from fractions import Fraction as F

from vlib import core, world as W, model, killgen as KG
from oracles import cgroup as CG, engine, path as P, kill as K

ID = "C18"
LEVEL = "exploration"
FLAVORS = ["asan"]
RULE = ("12-tick histories over 3-5 cgroups (usage, file/anon split, memory.min/high/max, swap limits and usage up a two-level hierarchy, "
        "`some` pressure averages and growing totals), every senpai argument randomised, both modes, with/without memory.reclaim and "
        "memory.high.tmp, cgroups removed / re-created between ticks and removed between two file accesses of a tick (incl. the first, probing tick), limits changed behind senpai's back, senpai's own writes failing (EAGAIN/EBUSY/EINTR/short), timed pokes (memory_high_timeout_ms: helper thread, writer blocked in reclaim until SIGUSR1); every write(2) of the plugin "
        "is checked: target file in {memory.high, memory.high.tmp, memory.reclaim} of a cgroup matched by `cgroup` (or vm.swappiness when "
        "modulate_swappiness, restored by the last write of the tick); classic mode: value == memory.current (start/restart) or 4 KiB "
        "aligned, > floor-4096 and <= ceiling unless floor > ceiling; the first write to a new incarnation is a start value; immediate "
        "backoff: amount <= max_probe*(usage-floor), only with memory and io `some` pressure below target and (swap_validation) effective "
        "swap utilisation below swap_threshold, pokes reset to max within the tick. floor/ceiling recomputed from the files in exact (memory.stat as the kernel writes it: `file` includes shmem and mlocked pages, only active_file + inactive_file is reclaimable cache) "
        "arithmetic. non-trivial = >=3 limit/reclaim writes judged; distinct by scenario hash")
ASSUMPTIONS = ["envelope check, not a model of the controller", "write(2) interposed; the simulated files keep what senpai wrote, as the kernel would"]
INT64_MAX = (1 << 63) - 1


def mkcg(rng, mem_total, tmp, reclaim, total_us):
    cur = rng.randint(1 << 24, 1 << 32)
    file_ = rng.randint(0, cur // 2)
    anon = cur - file_ - rng.randint(0, cur // 8)
    # `file` counts the whole page cache: shmem (which lives on the anon LRU) and mlocked file pages (unevictable) are in it but
    # are not reclaimable file cache; only active_file + inactive_file is
    shmem = rng.choice([0, 0, file_ // 4, file_ // 2])
    mlocked = rng.choice([0, 0, (file_ - shmem) // 3, file_ - shmem])
    lru = file_ - shmem - mlocked
    st = {"anon": anon, "file": file_, "shmem": shmem, "unevictable": mlocked, "active_file": lru // 3, "inactive_file": lru - lru // 3,
          "active_anon": anon // 2, "inactive_anon": anon - anon // 2, "pgscan": 5}
    lo = lambda: round(rng.choice([0.0, 0.01, 0.05, 0.09, 0.2, 1.5]), 2)
    return W.cgroup(current=cur, stat=W.memstat(st), minv=rng.choice([0, 0, 1 << 20, cur // 2]),
                    high=rng.choice([None, None, cur * 2, cur // 2]), maxv=rng.choice([None, None, cur * 3, cur]),
                    mem_pressure=W.psi(some=(lo(), lo(), 0.0, total_us), full=(0.0, 0.0, 0.0, 0)),
                    io_pressure=W.psi(some=(lo(), lo(), 0.0, 5), full=(0.0, 0.0, 0.0, 0)),
                    swap_current=rng.choice([0, 1 << 20, 1 << 28]), swap_max=rng.choice([None, 0, 1 << 29, 1 << 21]),
                    high_tmp=tmp, reclaim=reclaim, pids=[])


def cases(seed, tier):
    n = 1200 if tier == "quick" else 6000
    rng = random.Random(seed * 1000003 + 18)
    for i in range(n):
        cid = "C18-%d-%d" % (seed, i)
        immediate = rng.random() < 0.5
        tmp, reclaim = rng.random() < 0.5, rng.random() < 0.5
        mem_total_kb = rng.choice([1 << 20, 1 << 22, 1 << 24])
        swap_kb = rng.choice([0, 1 << 20, 1 << 22])
        names = rng.sample(["a", "b", "c", "d", "e"], rng.randint(2, 4))
        rels = ["wl/" + x for x in names] + (["wl/%s/sub" % names[0]] if rng.random() < 0.4 else [])
        totals = {r: rng.randint(0, 10**6) for r in rels + ["wl"]}
        cgs = {"/": W.root_cgroup(), "wl": mkcg(rng, mem_total_kb * 1024, tmp, reclaim, totals["wl"]), "other": mkcg(rng, mem_total_kb * 1024, tmp, reclaim, 5)}
        for r in rels:
            cgs[r] = mkcg(rng, mem_total_kb * 1024, tmp, reclaim, totals[r])
        args = {"cgroup": rng.choice(["wl/*", "wl/*,wl/*/*", ",".join(rels[:2]), "wl/" + names[0]]),
                "interval": str(rng.choice([0, 0, 1, 2])), "limit_min_bytes": str(rng.choice([0, 4096, 1 << 20, 100 << 20])),
                "limit_max_bytes": str(rng.choice([0, 1 << 20, 1 << 30, 10 << 30]))}
        if rng.random() < 0.5:
            args["pressure_ms"] = str(rng.choice([1, 10, 100]))
        if rng.random() < 0.5:
            args["max_probe"] = rng.choice(["0.01", "0.1", "0.5"])
        if rng.random() < 0.3:
            args["max_backoff"] = rng.choice(["0.5", "1.0", "2.0"])
        if rng.random() < 0.3:
            args["coeff_probe"] = rng.choice(["1", "10"])
            args["coeff_backoff"] = rng.choice(["2", "20"])
        if immediate:
            args["immediate_backoff"] = "true"
            if rng.random() < 0.6:
                args["pressure_pct"] = rng.choice(["0.05", "0.1", "1.0"])
            if rng.random() < 0.5:
                args["io_pressure_pct"] = rng.choice(["0.05", "0.1", "1.0"])
            if rng.random() < 0.6:
                args["swap_validation"] = "true"
                args["swap_threshold"] = rng.choice(["0.1", "0.5", "0.8"])
            if rng.random() < 0.4:
                args["modulate_swappiness"] = "true"
                args["swapout_bps_threshold"] = str(rng.choice([1, 1 << 20]))
        nticks = 12
        ticks = []
        live = set(rels)
        # a cgroup vanishing between two consecutive file accesses of a tick (often the very first tick, while senpai
        # probes what the kernel supports): it must be dropped, and nothing learnt from it may stick to the others
        vanish = None
        if rng.random() < 0.3:
            tops = sorted(r for r in rels if r.count("/") == 1)
            # tick-0 access sequence: 3 /proc files, one directory open per matched cgroup, then per cgroup memory.current,
            # memory.high.tmp, ...: aim half of the faults at the first probed cgroup's first few accesses
            k0 = 3 + len(rels)
            vanish = {"tick": rng.choice([0, 0, 0, 1, 3]), "k": rng.choice([k0, k0 + 1, k0 + 2]) if rng.random() < 0.5 else rng.randint(0, 12 + 4 * len(rels)),
                      "cg": tops[0] if rng.random() < 0.6 else rng.choice(tops)}
        for t in range(nticks):
            ops = []
            if vanish and t == vanish["tick"] + 1:
                for q in list(live):
                    if q == vanish["cg"] or q.startswith(vanish["cg"] + "/"):
                        live.discard(q)
            if t > 0:
                for r in rels:
                    if r not in live:
                        if rng.random() < 0.4 and all(p in live or p == "wl" for p in [r.rsplit("/", 1)[0]]):
                            totals[r] = rng.randint(0, 10**5)
                            ops.append(dict(op="mk", cg=r, **mkcg(rng, mem_total_kb * 1024, tmp, reclaim, totals[r])))
                            live.add(r)
                        continue
                    x = rng.random()
                    if x < 0.05:
                        ops.append({"op": "rm", "cg": r})
                        for q in list(live):
                            if q == r or q.startswith(r + "/"):
                                live.discard(q)
                        if rng.random() < 0.5:
                            totals[r] = rng.randint(0, 10**5)
                            ops.append(dict(op="mk", cg=r, **mkcg(rng, mem_total_kb * 1024, tmp, reclaim, totals[r])))
                            live.add(r)
                        continue
                    totals[r] += rng.choice([0, 0, 100, 5000, 20000, 500000])
                    nd = mkcg(rng, mem_total_kb * 1024, tmp, reclaim, totals[r])
                    for fn in ("memory.pressure", "io.pressure"):
                        ops.append({"op": "write", "cg": r, "file": fn, "text": nd["files"][fn]})
                    if x < 0.5:
                        for fn in ("memory.current", "memory.stat", "memory.swap.current"):
                            ops.append({"op": "write", "cg": r, "file": fn, "text": nd["files"][fn]})
                    if x > 0.93:
                        fn = "memory.high.tmp" if tmp else "memory.high"
                        ops.append({"op": "write", "cg": r, "file": fn, "text": "12345678 0\n" if tmp else "12345678\n"})
            ticks.append({"step_ns": 10**9, "ops": ops})
        cfg = {"rulesets": [{"name": "rs", "post_action_delay": "0", "detectors": [["g", W.det("d")]], "actions": [{"name": "senpai", "args": args}, W.act("post")]}]}
        proc = W.proc(mem_total_kb=mem_total_kb, swap_entries=((swap_kb, rng.choice([0, swap_kb // 2, swap_kb * 9 // 10])),) if swap_kb else (),
                      swappiness=rng.choice([0, 60, 100]))
        scn = KG.base_scn(cid, cgs, cfg, ticks=ticks, proc=proc)
        targeted = immediate and args.get("modulate_swappiness") == "true" and rng.random() < 0.6
        if targeted or rng.random() < 0.2:
            # the kernel refuses or interrupts senpai's writes now and then (EAGAIN from memory.reclaim is routine)
            fn = rng.choice(["memory.reclaim", "memory.high", "memory.high.tmp", "swappiness"])
            if targeted:
                # fail exactly the write this configuration reclaims with, while swappiness is modulated
                fn = "memory.reclaim" if reclaim else ("memory.high.tmp" if tmp else "memory.high")
            scn["write_faults"] = [dict(file=fn, **rng.choice([{"errno": "EAGAIN"}, {"errno": "EBUSY"}, {"errno": "EINTR", "count": 2},
                                                               {"errno": "EAGAIN", "count": 3}, {"short": True}]))]
        if immediate and not reclaim and rng.random() < 0.5:
            # the poke goes through the timed write (helper thread + SIGUSR1 after memory_high_timeout_ms); in a third of these
            # the kernel really blocks the writer in reclaim, so the write is cut short by the signal - the limit is in effect
            # all the same and has to be reset to max within the tick. Real clock: the wait is a real condition-variable wait.
            args["memory_high_timeout_ms"] = str(rng.choice([5, 20, 60]))
            scn["vclock"] = False
            if rng.random() < 0.35 and "write_faults" not in scn:
                scn["write_faults"] = [{"file": "memory.high.tmp" if tmp else "memory.high", "block": True, "count": rng.choice([1, 1, 2, 3])}]
        if vanish:
            scn["access_faults"] = [{"tick": vanish["tick"], "k": vanish["k"], "ops": [{"op": "rm", "cg": vanish["cg"]}]}]
        yield core.Case(cid, [scn], {"args": args, "immediate": immediate, "tmp": tmp, "reclaim": reclaim, "vanish": vanish})


def floor_ceiling(view, rel, args, tmp):
    cur = view.current(rel)
    ms = view.memstat(rel) or {}
    fc = ms.get("active_file", 0) + ms.get("inactive_file", 0)
    swappable = 0
    sw = int(view.w.proc.get("sys/vm/swappiness", "0"))
    if view.swaptotal > 0 and sw > 0:
        esf = view.eff_swap_free(rel)
        if esf is not None and esf > 0:
            swappable = min(esf, ms.get("active_anon", 0) + ms.get("inactive_anon", 0))
    lmin = int(args.get("limit_min_bytes", 100 << 20))
    lmax = int(args.get("limit_max_bytes", 10 << 30))
    floor = max(view.limit(rel, "memory.min") or 0, cur - (fc + swappable) + lmin)
    ceil_ = min(view.meminfo.get("MemTotal", 0), cur + lmax, view.limit(rel, "memory.max") or INT64_MAX)
    if tmp:
        ceil_ = min(ceil_, view.limit(rel, "memory.high") or INT64_MAX)
    return floor, ceil_


def judge(case, results):
    v = core.Verdict()
    res, scn = results[0], case.scns[0]
    cr = core.classify_crash(res) if res.crashed else core.exception_outcome(res)
    if cr:
        v.bad("crash:" + cr[0], cr[1], cr[2])
        return v
    m = case.meta
    args = m["args"]
    pats = args["cgroup"].split(",")
    params = CG.Params(scn)
    _, ticks = engine.split_ticks(res.events)
    w = model.World(scn)
    started = set()  # incarnations that received their first limit write
    judged = 0
    mp = F(args.get("max_probe", "0.01"))
    for ti, evs in enumerate(ticks):
        w.apply(scn["ticks"][ti].get("ops"))
        snap = w.snapshot()
        view = CG.View(snap, params)
        matched = set(P.resolve_many(pats, snap.dirs()))
        raw_writes = [e for e in evs if e.get("ev") == "write" and e["path"] != "/kmsg"]
        # a short write is completed by the following write(s) to the same file: judge the text as a whole
        writes = []
        for e in raw_writes:
            if writes and writes[-1].get("_short") and writes[-1]["path"] == e["path"]:
                prev = writes[-1]
                prev["data"] = prev["data"][:prev["_done"]] + e["data"]
                if e.get("fault") == "short":
                    prev["_done"] = prev["_done"] + len(e["data"]) // 2
                else:
                    prev.pop("_short")
                    if "fault" in e:
                        prev["fault"] = e["fault"]
                continue
            e = dict(e)
            if e.get("fault") == "short":
                e["_short"] = True
                e["_done"] = len(e["data"]) // 2
                e.pop("fault")
            writes.append(e)
        orig_sw = snap.proc.get("sys/vm/swappiness", "").strip()
        sw_writes = [e for e in writes if e["path"] == "/proc/sys/vm/swappiness"]
        if sw_writes:
            if not K.parse_bool(args.get("modulate_swappiness")):
                v.bad("swappiness-write", "not-requested", "tick %d: wrote swappiness %r without modulate_swappiness" % (ti, sw_writes[0]["data"]))
            ok_sw = [e for e in sw_writes if "fault" not in e or e.get("fault") == "short"]
            if scn.get("write_faults") and scn["write_faults"][0]["file"] == "swappiness":
                v.count("swappiness_write_faulted")  # the restore itself was made to fail: nothing to demand
            elif sw_writes[-1]["data"].strip() != orig_sw:
                v.bad("swappiness-not-restored", "", "tick %d: swappiness writes %s, original %s" % (ti, [e["data"] for e in sw_writes], orig_sw))
            v.count("swappiness_writes", len(sw_writes))
        pending_poke = {}
        reclaim_requested, over_budget = {}, set()
        for e in writes:
            if e["path"] == "/proc/sys/vm/swappiness":
                continue
            if not e["path"].startswith("/cg/"):
                v.bad("write-outside-cgroupfs", "", "tick %d: write to %s" % (ti, e["path"]))
                continue
            d, fn = e["path"].rsplit("/", 1)
            rel = d[4:]
            if fn not in ("memory.high", "memory.high.tmp", "memory.reclaim"):
                v.bad("write-other-file", fn, "tick %d: senpai wrote %r to %s" % (ti, e["data"][:30], e["path"]))
                continue
            if rel not in matched:
                v.bad("write-unmatched-cgroup", fn, "tick %d: wrote %s of %s, which `cgroup=%s` does not match (%s)" % (ti, fn, rel, args["cgroup"], sorted(matched)))
                continue
            if fn == "memory.reclaim" and m["immediate"] and e.get("fault") in (None, 11):
                # EAGAIN from memory.reclaim means the kernel reclaimed less than asked, not nothing: whatever is requested
                # from one cgroup within a tick, in one write or several, counts against the tick's budget
                try:
                    req = int(e["data"].split()[0])
                except (ValueError, IndexError):
                    req = 0
                fl, _ = floor_ceiling(view, rel, args, m["tmp"])
                tot = reclaim_requested.get(rel, 0) + req
                reclaim_requested[rel] = tot
                bound_t = mp * max(0, view.current(rel) - fl)
                if tot > bound_t + 1 and rel not in over_budget:
                    over_budget.add(rel)
                    v.bad("reclaim-too-large", "several-requests-in-one-tick", "tick %d cgroup %s: memory.reclaim requests in this tick add up to %d bytes (last one %s); max_probe %s x (usage %d - floor %d) = %s" % (
                        ti, rel, tot, "answered EAGAIN" if e.get("fault") else "accepted", mp, view.current(rel), fl, float(bound_t)))
            if e.get("blocked"):
                v.count("writes_blocked_until_signal")
            if "fault" in e:
                v.count("failed_writes")
                continue  # the write did not take effect; nothing to judge about its value
            judged += 1
            cur = view.current(rel)
            floor, ceil_ = floor_ceiling(view, rel, args, m["tmp"])
            val = int(e["data"].split()[0])
            inc = (rel, snap.cg[rel]["gen"])
            # keep the model file in sync with what the kernel would now show
            if fn != "memory.reclaim" and "fault" not in e:
                w.cg[rel]["files"][fn] = e["data"] + "\n"
            if not m["immediate"]:
                if fn == "memory.reclaim":
                    v.bad("reclaim-in-classic-mode", "", "tick %d: memory.reclaim written without immediate_backoff" % ti)
                    continue
                first = inc not in started
                started.add(inc)
                if val == cur:
                    v.count("start_writes")
                    continue
                if first:
                    v.bad("stale-limit-on-new-cgroup", "", "tick %d cgroup %s (new incarnation): first limit written is %d, current usage %d" % (ti, rel, val, cur))
                    continue
                if val == INT64_MAX:
                    continue
                v.count("adjust_writes")
                if val % 4096:
                    v.bad("limit-unaligned", "", "tick %d cgroup %s: limit %d not 4 KiB aligned" % (ti, rel, val))
                if val <= floor - 4096:
                    v.bad("limit-below-floor", "", "tick %d cgroup %s: limit %d, floor %d (usage %d)" % (ti, rel, val, floor, cur))
                if val > ceil_ and not floor > ceil_:
                    v.bad("limit-above-ceiling", "", "tick %d cgroup %s: limit %d, ceiling %d, floor %d" % (ti, rel, val, ceil_, floor))
            else:
                if fn == "memory.reclaim":
                    amount = val
                    v.count("reclaim_writes")
                elif val == INT64_MAX:
                    if pending_poke.pop(rel, None) is None:
                        v.count("reset_without_poke")
                    continue
                else:
                    amount = cur - val
                    pending_poke[rel] = e
                    v.count("poke_writes")
                bound = mp * max(0, cur - floor)
                if amount > bound + 1 or amount < 0:
                    v.bad("reclaim-too-large", "", "tick %d cgroup %s: reclaims %d bytes; max_probe %s x (usage %d - floor %d) = %s" % (ti, rel, amount, mp, cur, floor, float(bound)))
                ps, pi = view.psi(rel, "memory", "some"), view.psi(rel, "io", "some")
                tm, tio = F(args.get("pressure_pct", "0.1")), F(args.get("io_pressure_pct", "0.1"))
                if ps and pi:
                    pm_, pio_ = max(ps[0], ps[1]), max(pi[0], pi[1])
                    if (pm_ > float(tm) + 1e-6) or (pio_ > float(tio) + 1e-6):
                        v.bad("reclaim-under-pressure", "", "tick %d cgroup %s: reclaim with some-pressure mem %s (target %s) io %s (target %s)" % (ti, rel, pm_, tm, pio_, tio))
                if K.parse_bool(args.get("swap_validation")):
                    sw = int(snap.proc.get("sys/vm/swappiness", "0"))
                    if view.swaptotal > 0 and sw > 0 and (view.eff_swap_max(rel) or 0) != 0:
                        u = view.eff_swap_util(rel)
                        thr = F(args.get("swap_threshold", "0.8"))
                        if u not in (None, "dontcare"):
                            v.count("swap_guard_evaluated")
                            if u > thr + F(1, 10**6):
                                v.bad("reclaim-with-swap-depleted", "", "tick %d cgroup %s: reclaim although effective swap utilisation %.4f >= swap_threshold %s" % (ti, rel, float(u), thr))
        if m.get("vanish") and m["vanish"]["tick"] == ti:
            if any(e.get("ev") == "access_fault" for e in evs):
                v.count("vanished_mid_tick")
                pending_poke.pop(m["vanish"]["cg"], None)
                w.apply([{"op": "rm", "cg": m["vanish"]["cg"]}])  # (a fault whose access index was never reached does not happen)
        for rel, e in pending_poke.items():
            v.bad("poke-not-reset", "", "tick %d cgroup %s: memory.high poke %r not reset to max within the tick" % (ti, rel, e["data"]))
    v.count("writes_judged", judged)
    v.count("mode:" + ("immediate" if m["immediate"] else "classic"))
    v.nontrivial = judged >= 3
    v.sig = core.scn_hash(scn)
    return v


def sample(case, v):
    s = case.scns[0]
    return {"case": case.id, "args": case.meta["args"], "has_high_tmp": case.meta["tmp"], "has_memory_reclaim": case.meta["reclaim"],
            "cgroups": sorted(s["cgroups"]), "ops_tick2": [(o["op"], o.get("cg"), o.get("file")) for o in s["ticks"][2]["ops"]][:6], "observed": v.stats}
