"""Check runner: build -> generate cases -> run drivers -> judge -> known-findings -> evidence.

A check module (checks/cNN.py) defines
  ID, LEVEL, RULE (text), ASSUMPTIONS (list), FLAVORS (list of build flavors)
  cases(seed, tier)        -> iterable of Case
  judge(case, results)     -> Verdict      (results: list of Result, one per scenario)
and optionally  summarize(verdicts) -> dict of extra coverage keys,  MIN_NONTRIVIAL.
"""
import hashlib
import json
import multiprocessing as mp
import os
import re
import shutil
import subprocess
import sys
import time

VERIF = os.path.dirname(os.path.dirname(os.path.abspath(__file__)))
sys.path.insert(0, os.path.join(VERIF, "harness"))
import build as vbuild  # noqa: E402

# sensitivity tooling (bin/mutsweep, bin/seedcheck) redirects evidence/replays away from the committed tree
OUT = os.environ.get("VERIF_OUT") or VERIF
NPROC = int(os.environ.get("VERIF_JOBS", str(os.cpu_count() or 8)))


class Case:
    def __init__(self, cid, scns, meta=None, driver="sim", flavor="asan"):
        self.id = cid
        self.scns = scns
        self.meta = meta or {}
        self.driver = driver
        self.flavor = flavor


class Result:
    def __init__(self, scn, events, summary, err):
        self.scn = scn
        self.events = events
        self.summary = summary
        self.err = err
        self.end = None
        for e in reversed(events):
            if e.get("ev") == "end":
                self.end = e
                break

    @property
    def crashed(self):
        s = self.summary
        return bool(s.get("timeout") or s.get("signal") or s.get("exit") or self.end is None)


class Verdict:
    def __init__(self):
        self.violations = []  # (rule, discriminator, detail)
        self.nontrivial = False
        self.sig = None  # hashable signature for distinctness
        self.stats = {}  # counters merged into evidence
        self.inconclusive = None  # reason string

    def bad(self, rule, disc, detail=""):
        self.violations.append((rule, disc, detail))

    def count(self, k, n=1):
        self.stats[k] = self.stats.get(k, 0) + n


# ------------------------------------------------------------------ crash classification
_FRAME = re.compile(r"#\d+ 0x[0-9a-f]+ in (.+?) (/\S+?):(\d+)")


def first_repo_frame(text):
    for m in _FRAME.finditer(text):
        fn, path, line = m.group(1), m.group(2), m.group(3)
        if "/src/oomd/" in path:
            fn = re.sub(r"\(.*", "", fn)
            fn = re.sub(r"\[abi:\w+\]", "", fn)
            return "%s@%s" % (fn.strip(), os.path.basename(path))
    return "?"


def classify_crash(res):
    """-> (rule, discriminator, detail) describing how the child died, or None."""
    s, err = res.summary, res.err or ""
    if s.get("timeout"):
        return ("hang", "watchdog", "child exceeded the wall-clock watchdog twice")
    m = re.search(r"ERROR: AddressSanitizer: ([\w-]+)", err)
    if m and m.group(1) != "ABRT":
        tail = err[m.start():]
        return ("asan-" + m.group(1), first_repo_frame(tail), tail[:3000])
    abrt_tail = err[m.start():] if m else ""
    m = re.search(r"(\S+?):(\d+):\d+: runtime error: (.+)", err)
    if m:
        kind = re.sub(r"0x[0-9a-f]+", "ADDR", m.group(3))
        kind = re.sub(r"-?\d+(\.\d+)?(e[+-]?\d+)?", "N", kind)[:80]
        tail = err[m.start():]
        fr = first_repo_frame(tail)
        if fr == "?":
            fr = os.path.basename(m.group(1))
        return ("ubsan", "%s: %s" % (fr, kind), tail[:3000])
    m = re.search(r"Assertion '(.+?)' failed", err)
    if m:
        m2 = re.search(r"(\S+):(\d+): (.+?): Assertion", err)
        where = m2.group(3)[:120] if m2 else "?"
        where = re.sub(r"std::__cxx11::basic_string<char>", "string", where)
        site = first_repo_frame(abrt_tail)
        return ("assert", "%s: %s" % (site if site != "?" else where, m.group(1)[:80]), (err[m2.start():] if m2 else err)[:3000])
    for e in res.events:
        if e.get("ev") == "terminate":
            return ("uncaught-exception", "%s: %s @ %s" % (e.get("type"), _norm_what(e.get("what", "")), e.get("throw_site", "?")), err[-2000:])
    if abrt_tail:
        return ("abort", first_repo_frame(abrt_tail), abrt_tail[:3000])
    if s.get("signal"):
        return ("signal-%d" % s["signal"], first_repo_frame(err), err[-3000:])
    if s.get("exit"):
        return ("exit-%d" % s["exit"], first_repo_frame(err), err[-3000:])
    if res.end is None:
        return ("no-end-event", "?", err[-2000:])
    return None


def _norm_what(w):
    w = re.sub(r"/dev/shm/vsim\.\d+\S*", "<root>", w)
    w = re.sub(r"\d+", "N", w)
    return w[:100]


def exception_outcome(res):
    """exception that escaped Oomd::run() and was caught by the driver."""
    if res.end and res.end.get("outcome") == "exception":
        return ("exception-escapes-run", "%s: %s @ %s" % (res.end.get("type"), _norm_what(res.end.get("what", "")), res.end.get("throw_site", "?")),
                res.end.get("what", ""))
    return None


# ------------------------------------------------------------------ running drivers
def _run_shard(args):
    binpath, mode, scnfile, outdir, start, end, env = args
    e = dict(os.environ)
    e.update(env or {})
    e.setdefault("ASAN_OPTIONS", "abort_on_error=1:detect_leaks=0:halt_on_error=1:handle_abort=1:allocator_may_return_null=1")
    e.setdefault("UBSAN_OPTIONS", "print_stacktrace=1:halt_on_error=1")
    p = subprocess.run([binpath, mode, scnfile, outdir, str(start), str(end)], env=e,
                       stdout=subprocess.PIPE, stderr=subprocess.PIPE, text=True)
    return p.returncode, p.stderr[-2000:]


def run_scenarios(scns, flavor="asan", mode="sim", workdir=None, env=None, jobs=None):
    """Run scenarios through `vsim.<flavor> <mode>`; returns list of Result (same order)."""
    bdir = vbuild.build(flavor, quiet=True)
    binpath = os.path.join(bdir, "vsim." + flavor)
    own = workdir is None
    if own:
        workdir = "/dev/shm/vrun.%d.%d" % (os.getpid(), int(time.time() * 1000) % 100000)
    os.makedirs(workdir, exist_ok=True)
    scnfile = os.path.join(workdir, "scn.jsonl")
    with open(scnfile, "w") as f:
        for s in scns:
            f.write(json.dumps(s, separators=(",", ":")) + "\n")
    n = len(scns)
    jobs = jobs or NPROC
    nshards = max(1, min(jobs, n))
    per = (n + nshards - 1) // nshards
    shards = [(binpath, mode, scnfile, workdir, i * per, min(n, (i + 1) * per), env) for i in range(nshards) if i * per < n]
    if len(shards) == 1:
        rcs = [_run_shard(shards[0])]
    else:
        with mp.Pool(len(shards)) as pool:
            rcs = pool.map(_run_shard, shards)
    for rc, err in rcs:
        if rc != 0:
            raise HarnessError("driver failed rc=%s: %s" % (rc, err))
    summ = {}
    for fn in os.listdir(workdir):
        if fn.startswith("summary."):
            for line in open(os.path.join(workdir, fn)):
                d = json.loads(line)
                summ[d["idx"]] = d
    results = []
    for i, s in enumerate(scns):
        results.append(load_result(workdir, i, s, summ.get(i, {"exit": -2})))
    if own:
        shutil.rmtree(workdir, ignore_errors=True)
    return results


def load_result(workdir, i, scn, summary):
    events = []
    tp = os.path.join(workdir, "%d.trace" % i)
    if os.path.exists(tp):
        with open(tp, errors="replace") as f:
            for line in f:
                line = line.strip()
                if line:
                    try:
                        events.append(json.loads(line))
                    except ValueError:
                        pass
    ep = os.path.join(workdir, "%d.err" % i)
    err = ""
    if os.path.exists(ep):
        with open(ep, errors="replace") as f:
            err = f.read()
        if len(err) > 400000:
            err = err[:100000] + "\n...\n" + err[-300000:]
    return Result(scn, events, summary, err)


class HarnessError(Exception):
    pass


# ------------------------------------------------------------------ known findings
def load_known():
    p = os.path.join(VERIF, "known_findings.json")
    if not os.path.exists(p):
        return []
    return json.load(open(p)).get("findings", [])


def match_known(known, prop, key):
    for k in known:
        if k.get("status") == "known" and k.get("property") == prop and k.get("key") == key:
            return k
    return None


# ------------------------------------------------------------------ main entry
def scn_hash(obj):
    return hashlib.sha1(json.dumps(obj, sort_keys=True, default=str).encode()).hexdigest()[:16]


def _judge_one(args):
    modname, case, results = args
    import importlib
    mod = importlib.import_module(modname)
    try:
        v = mod.judge(case, results)
    except Exception as ex:  # oracle crash = harness failure
        import traceback
        v = Verdict()
        v.inconclusive = "oracle-crash: " + "".join(traceback.format_exception(ex))[-1500:]
    return v


def run_check(mod, argv=None):
    import argparse
    ap = argparse.ArgumentParser()
    ap.add_argument("--tier", default=os.environ.get("VERIF_TIER", "quick"))
    ap.add_argument("--replay", default=None)
    ap.add_argument("--seed", type=int, default=int(os.environ.get("VERIF_SEED", "1")))
    ap.add_argument("--keep", action="store_true")
    ap.add_argument("--limit", type=int, default=0)
    a = ap.parse_args(argv)
    t0 = time.time()
    prop = mod.ID
    try:
        if a.replay:
            return replay(mod, a.replay)
        cases = list(mod.cases(a.seed, a.tier))
        if a.limit:
            cases = cases[:a.limit]
        verdicts = execute(mod, cases)
    except HarnessError as ex:
        print("HARNESS-ERROR property=%s %s" % (prop, ex))
        return 2
    return report(mod, cases, verdicts, a.tier, a.seed, time.time() - t0)


CHUNK = int(os.environ.get("VERIF_CHUNK", "2000"))


def execute(mod, cases):
    """run + judge; large case lists are processed in chunks so traces never pile up in memory"""
    if hasattr(mod, "run_batch") or len(cases) <= CHUNK:
        return execute_chunk(mod, cases)
    verdicts = []
    for i in range(0, len(cases), CHUNK):
        verdicts += execute_chunk(mod, cases[i:i + CHUNK])
    return verdicts


def execute_chunk(mod, cases):
    # group scenarios by (driver, flavor) and run each group in one sharded batch
    flat = {}
    for ci, c in enumerate(cases):
        for si, s in enumerate(c.scns):
            flat.setdefault((c.driver, c.flavor), []).append((ci, si, s))
    per_case = {ci: [None] * len(c.scns) for ci, c in enumerate(cases)}
    for (driver, flavor), items in flat.items():
        if hasattr(mod, "run_batch"):
            res = mod.run_batch(driver, flavor, [s for _, _, s in items])
        else:
            res = run_scenarios([s for _, _, s in items], flavor=flavor, mode=driver)
        # re-run timeouts once, alone (inconclusive until it repeats)
        again = [] if hasattr(mod, "run_batch") else [k for k, r in enumerate(res) if r.summary.get("timeout")]
        if again:
            res2 = run_scenarios([items[k][2] for k in again], flavor=flavor, mode=driver, jobs=2)
            for k, r2 in zip(again, res2):
                res[k] = r2
        for (ci, si, _), r in zip(items, res):
            per_case[ci][si] = r
    jobs = [(mod.__name__, c, per_case[ci]) for ci, c in enumerate(cases)]
    if len(jobs) > 64 and NPROC > 1 and not getattr(mod, "SERIAL_JUDGE", False):
        with mp.Pool(NPROC) as pool:
            verdicts = pool.map(_judge_one, jobs, chunksize=max(1, len(jobs) // (NPROC * 4)))
    else:
        verdicts = [_judge_one(j) for j in jobs]
    return verdicts


def report(mod, cases, verdicts, tier, seed, wall):
    prop = mod.ID
    known = load_known()
    stats = {}
    distinct = set()
    nviol = 0
    inconclusive = []
    new_keys = {}
    known_hit = {}
    for c, v in zip(cases, verdicts):
        for k, n in v.stats.items():
            stats[k] = stats.get(k, 0) + n
        if v.inconclusive:
            inconclusive.append((c.id, v.inconclusive))
            continue
        if v.nontrivial:
            distinct.add(v.sig if v.sig is not None else scn_hash(c.scns))
        for rule, disc, detail in v.violations:
            key = "%s|%s|%s" % (prop, rule, disc)
            kf = match_known(known, prop, key)
            if kf:
                known_hit.setdefault(key, kf)
            else:
                new_keys.setdefault(key, (c, detail))
                nviol += 1
    rc = 0
    for key, kf in sorted(known_hit.items()):
        print("KNOWN-FINDING: property=%s %s" % (prop, kf.get("what", key)))
    for key, (c, detail) in sorted(new_keys.items()):
        d = os.path.join(OUT, "replays", prop)
        os.makedirs(d, exist_ok=True)
        path = os.path.join(d, scn_hash([key, c.scns]) + ".json")
        json.dump({"property": prop, "key": key, "case_id": c.id, "driver": c.driver, "flavor": c.flavor,
                   "meta": c.meta, "scns": c.scns, "detail": detail[:6000]}, open(path, "w"), indent=1, default=str)
        print("VIOLATION property=%s replay=%s" % (prop, path))
        print("  key: %s" % key)
        print("  detail: %s" % detail[:600].replace("\n", "\n    "))
        rc = 1
    minnt = getattr(mod, "MIN_NONTRIVIAL", 2)
    harness_fail = None
    if len(inconclusive) > max(2, len(cases) // 50):
        harness_fail = "too many inconclusive cases (%d): %s" % (len(inconclusive), inconclusive[0])
    elif any(r.startswith("oracle-crash") for _, r in inconclusive):
        harness_fail = "oracle crashed: %s" % [r for _, r in inconclusive if r.startswith("oracle-crash")][0]
    elif len(distinct) < minnt:
        harness_fail = "non-vacuity: only %d distinct non-trivial cases (need %d)" % (len(distinct), minnt)
    samples = []
    if hasattr(mod, "sample"):
        for c, v in zip(cases, verdicts):
            if v.nontrivial and len(samples) < 3:
                samples.append(mod.sample(c, v))
    if not samples:
        samples = [{"case": c.id, "meta": c.meta} for c in cases[:2]]
    cov = {
        "evaluations": len(cases),
        "distinct_nontrivial": len(distinct),
        "rule": mod.RULE,
        "samples": samples,
        "observed": stats,
        "inconclusive": len(inconclusive),
        "known_findings_seen": sorted(known_hit.keys()),
    }
    if hasattr(mod, "coverage_extra"):
        cov.update(mod.coverage_extra(cases, verdicts, tier))
    evd = {
        "property_id": prop, "tier": "thorough" if tier == "thorough" else "quick", "seed": seed,
        "level": mod.LEVEL, "coverage": cov, "assumptions": getattr(mod, "ASSUMPTIONS", []),
        "wall_s": round(wall, 2), "violations": nviol,
    }
    os.makedirs(os.path.join(OUT, "evidence"), exist_ok=True)
    with open(os.path.join(OUT, "evidence", prop + ".json"), "w") as f:
        json.dump(evd, f, indent=1, default=str)
    print("%s tier=%s seed=%d cases=%d distinct_nontrivial=%d violations=%d known=%d inconclusive=%d wall=%.1fs observed=%s" % (
        prop, tier, seed, len(cases), len(distinct), nviol, len(known_hit), len(inconclusive), wall,
        json.dumps(stats, sort_keys=True)[:600]))
    if rc == 0 and harness_fail:
        print("HARNESS-ERROR property=%s %s" % (prop, harness_fail))
        return 2
    return rc


def replay(mod, path):
    d = json.load(open(path))
    c = Case(d.get("case_id", "replay"), d["scns"], d.get("meta"), d.get("driver", "sim"), d.get("flavor", "asan"))
    verdicts = execute(mod, [c])
    v = verdicts[0]
    for rule, disc, detail in v.violations:
        print("VIOLATION property=%s replay=%s" % (mod.ID, path))
        print("  key: %s|%s|%s" % (mod.ID, rule, disc))
        print("  detail: %s" % detail[:3000])
    if v.inconclusive:
        print("INCONCLUSIVE:", v.inconclusive)
        return 2
    return 1 if v.violations else 0
