"""Generator of kill-plugin scenarios on a simulated cgroup tree (shared by C01, C03, C04, C07, C09, C17)."""
from vlib import world as W

# the last four are legal cgroup names that contain glob metacharacters (systemd escapes '-' in unit names as \\x2d): a child is
# a directory entry, never a pattern
NAMES = ["svc", "svc1", "svc10", "svc-a", "app", "app2", "a", "ab", "b", "db", "x", "app\\x2dhog.service", "w[1]", "s*r", "q?z"]
GLOBCHARS = set("\\*?[]{}")
# a mark is the presence of the attribute, whatever its value (`setfattr -n trusted.oomd_prefer <cgroup>` sets an empty one)
MARK_VALUES = ["1", "1", "1", "", "0", "true"]
# what a name with glob metacharacters matches when it is read as a pattern
DECOY = {"s*r": "svcr", "q?z": "qaz", "w[1]": "w1", "app\\x2dhog.service": "appx2dhog.service"}
HDD = [1.31e-3, 1.13e-7, 2.58e-1, 5.04e-7, 0, 0]
SSD = [1.21e-2, 6.25e-7, 1.07e-3, 2.61e-7, 2.37e-2, 9.10e-10]
PLUGINS = ["kill_by_memory_size_or_growth", "kill_by_swap_usage", "kill_by_pressure", "kill_by_io_cost", "kill_by_pg_scan"]


class PidAlloc:
    def __init__(self, start=100):
        self.n = start

    def take(self, k):
        r = list(range(self.n, self.n + k))
        self.n += k
        return r


def iostat_text(rng, scale=1):
    lines = []
    for dev in ("8:0", "8:16", "253:0"):
        if rng.random() < 0.8:
            v = [rng.randint(0, 10**9) * scale for _ in range(6)]
            extra = " cost.usage=5" if rng.random() < 0.2 else ""
            lines.append("%s rbytes=%d wbytes=%d rios=%d wios=%d dbytes=%d dios=%d%s" % (dev, v[0], v[1], v[2] // 1000, v[3] // 1000, v[4], v[5] // 1000, extra))
    return "".join(l + "\n" for l in lines)


def gen_node(rng, pids, big=False, tie_pool=None, pidcounts=(0, 1, 2, 3, 5), force_pop=None):
    hi = (1 << 62) if big else (1 << 34)
    cur = rng.randint(0, hi) if not tie_pool else rng.choice(tie_pool)
    npid = rng.choice(pidcounts)
    mypids = pids.take(npid)
    pr = lambda: (round(rng.uniform(0, 99), 2), round(rng.uniform(0, 99), 2), round(rng.uniform(0, 99), 2), rng.randint(0, 10**9))
    if tie_pool:
        pr = lambda: (float(rng.choice([0, 10, 10.5, 50])), float(rng.choice([0, 10, 50])), 1.0, 5)
    stat = {"anon": rng.randint(0, cur) if cur else 0, "file": rng.randint(0, 1 << 30), "pgscan": rng.randint(0, 10**6) if not tie_pool else rng.choice([0, 100])}
    stat["active_file"] = stat["file"] // 2
    stat["inactive_file"] = stat["file"] - stat["active_file"]
    stat["active_anon"] = stat["anon"] // 2
    stat["inactive_anon"] = stat["anon"] - stat["active_anon"]
    spec = W.cgroup(
        current=cur, pids=mypids, populated=force_pop,
        mem_pressure=W.psi(some=pr(), full=pr()), io_pressure=W.psi(some=pr(), full=pr()),
        stat=W.memstat(stat),
        low=rng.choice([0, 0, rng.randint(0, hi)]), minv=rng.choice([0, 0, 0, rng.randint(0, hi >> 2)]),
        swap_current=rng.choice([0, rng.randint(0, hi >> 4)]) if not tie_pool else rng.choice([0, 4096, 1 << 20]),
        swap_max=rng.choice([None, None, rng.randint(0, hi)]),
        oom_group=0, iostat=iostat_text(rng), high_tmp=rng.random() < 0.3)
    return spec, mypids


def gen_tree(rng, base="wl", depth=3, fan=4, big=False, tie=False, pidcounts=(0, 1, 2, 3, 5),
             pref_p=0.25, oomgroup_p=0.15, unpop_p=0.15, pids=None):
    """-> (cgroups dict, info dict rel -> {pids, children})"""
    pids = pids or PidAlloc()
    tie_pool = [0, 1 << 20, 1 << 30] if tie else None
    cgs = {"/": W.root_cgroup()}
    info = {}

    def add(rel, d):
        spec, mypids = gen_node(rng, pids, big, tie_pool, pidcounts)
        if rng.random() < pref_p:
            x = rng.random()
            xa = {}
            if x < 0.3:
                xa[rng.choice(["trusted.oomd_prefer", "user.oomd_prefer"])] = rng.choice(MARK_VALUES)
            elif x < 0.6:
                xa[rng.choice(["trusted.oomd_avoid", "user.oomd_avoid"])] = rng.choice(MARK_VALUES)
            else:
                # any combination of the four marks (prefer wins over avoid whatever the namespace)
                for name in ("trusted.oomd_prefer", "user.oomd_prefer", "trusted.oomd_avoid", "user.oomd_avoid"):
                    if rng.random() < 0.5:
                        xa[name] = rng.choice(MARK_VALUES)
            spec["xattrs"] = xa
        if rng.random() < oomgroup_p:
            spec["files"]["memory.oom.group"] = "1\n"
        cgs[rel] = spec
        info[rel] = {"pids": mypids, "children": []}
        if d < depth:
            n = rng.randint(0, fan) if d > 0 else rng.randint(2, fan + 1)
            if fan > len(NAMES):
                # a wide peer group (sorting routines switch algorithm with the size: 17+ elements)
                n = fan if d == 0 else rng.choice([0, 1, 2, fan])
                picked = rng.sample(NAMES + ["n%d" % i for i in range(fan)], n)
            else:
                picked = rng.sample(NAMES, min(n, len(NAMES)))
            for nm in list(picked):
                if nm in DECOY and rng.random() < 0.6:
                    picked.append(DECOY[nm])
            for nm in picked:
                c = rel + "/" + nm
                info[rel]["children"].append(c)
                add(c, d + 1)

    add(base, 0)
    # populated flag = any pid in subtree, sometimes forced inconsistent
    def sub_pids(rel):
        r = list(info[rel]["pids"])
        for c in info[rel]["children"]:
            r += sub_pids(c)
        return r

    for rel in info:
        pop = bool(sub_pids(rel))
        if pop and rng.random() < unpop_p * 0.3:
            pop = False  # kernel says unpopulated although procs file lists pids (racy view)
        cgs[rel]["files"]["cgroup.events"] = "populated %d\nfrozen 0\n" % int(pop)
    return cgs, info, pids


def kernelkill_inner_nodes(rng, cgs, info, args, base="wl"):
    """cgroup-v2 shape for cgroup.kill victims: processes live only in leaves ("no internal processes"), so an inner node's
    own cgroup.procs is empty although it is populated; pids.current is hierarchical, 0 or absent (no pids controller)."""
    def sub_pids(rel):
        r = list(info[rel]["pids"])
        for c in info[rel]["children"]:
            r += sub_pids(c)
        return r
    mode = rng.choice(["hier", "zero", "absent"])
    for rel in info:
        if info[rel]["children"]:
            below = [p for c in info[rel]["children"] for p in sub_pids(c)]
            info[rel]["pids"] = []
            f = cgs[rel]["files"]
            f["cgroup.procs"] = ""
            if mode == "hier":
                f["pids.current"] = "%d\n" % len(below)
            elif mode == "zero":
                f["pids.current"] = "0\n"
            else:
                f.pop("pids.current", None)
            f["cgroup.events"] = "populated %d\nfrozen 0\n" % int(bool(below))
    args["cgroup"] = base + "/*"
    args.pop("recursive", None)
    return mode


def kill_args(rng, plugin, patterns, recursive=None, dry=False, **force):
    a = {"cgroup": ",".join(patterns)}
    if recursive is None:
        recursive = rng.random() < 0.5
    if recursive:
        a["recursive"] = "true"
    if dry:
        a["dry"] = "true"
    if rng.random() < 0.25:
        a["always_continue"] = rng.choice(["true", "false"])
    if rng.random() < 0.3:
        a["reap_memory"] = rng.choice(["true", "false"])
    if rng.random() < 0.2:
        a["debug"] = "true"
    if plugin == "kill_by_pressure":
        a["resource"] = rng.choice(["memory", "io"])
    if plugin == "kill_by_swap_usage":
        if rng.random() < 0.6:
            a["threshold"] = rng.choice(["0", "1", "10%", "1K", "4096", "1M"]) if rng.random() < 0.8 else "50%"
        if rng.random() < 0.3:
            a["biased_swap_kill"] = "true"
    if plugin == "kill_by_memory_size_or_growth":
        if rng.random() < 0.5:
            a["size_threshold"] = str(rng.choice([0, 10, 50, 80, 100]))
        if rng.random() < 0.4:
            a["growing_size_percentile"] = str(rng.choice([0, 50, 80, 99]))
        if rng.random() < 0.4:
            a["min_growth_ratio"] = rng.choice(["1", "2", "3"])
    a.update({k: v for k, v in force.items() if v is not None})
    return a


def patterns_for(rng, info, base="wl"):
    # a literal pattern naming a child whose name has glob metacharacters would not mean that child
    # (a child named `w[1]` may well be named as a pattern - it then means `w1`, not itself; only the backslash is left out,
    # the reference matcher does not model glob's escaping)
    kids = [k for k in info[base]["children"] if "\\" not in k]
    choice = rng.random()
    if choice < 0.3 or not kids:
        return [base + "/*"]
    if choice < 0.45:
        return [base]
    if choice < 0.6:
        return [rng.choice(kids)]
    if choice < 0.75:
        return rng.sample(kids, min(2, len(kids)))
    if choice < 0.85:
        return [base + "/svc*"]
    if choice < 0.93:
        return [base + "/a?", base + "/app*"]
    return [base + "/*/*"]


LONG_RS, LONG_GROUP = "rk-" + "r" * 470, "g-" + "d" * 470  # a kill record well beyond the 992 bytes /dev/kmsg takes


def kill_config(plugin, args, ruleset_extra=None, hooks=None, det_ids=("d",), rs_name="rk", group="g"):
    rs = {"name": rs_name, "post_action_delay": "0",
          "detectors": [[group] + [W.det(i) for i in det_ids]],
          "actions": [W.act("pre"), {"name": plugin, "args": args}, W.act("post")]}
    if ruleset_extra:
        rs.update(ruleset_extra)
    cfg = {"rulesets": [rs]}
    if hooks:
        cfg["prekill_hooks"] = hooks
    return cfg


def base_scn(cid, cgs, config, nticks=2, proc=None, ticks=None, **extra):
    s = {"id": cid, "interval": 1, "config": config, "cgroups": cgs, "proc": proc or W.proc(),
         "ticks": ticks or [{"step_ns": 10**9} for _ in range(nticks)], "scripts": {},
         "io_devs": {"8:0": "ssd", "8:16": "hdd"}, "hdd_coeffs": HDD, "ssd_coeffs": SSD}
    s.update(extra)
    return s
