// Scripted plugins registered in the *real* oomd plugin registries.  They use the
// public plugin API only and log every call (method, instance, tick, virtual time,
// ActionContext seen) into the harness trace.
#include <time.h>

#include <atomic>
#include <cxxabi.h>
#include <sstream>

#include "oomd/OomdContext.h"
#include "oomd/PluginRegistry.h"
#include "oomd/engine/BasePlugin.h"
#include "oomd/engine/PrekillHook.h"
#include "oomd/engine/Ruleset.h"
#include "oomd/util/PluginArgParser.h"
#include "vh.h"

namespace vh {

static std::atomic<uint64_t> g_inst{0};

static std::string rel_of(const Oomd::CgroupPath& p) {
  return p.relativePath();
}

static Json::Value ctx_json(const Oomd::ActionContext& ac) {
  Json::Value c;
  c["ruleset"] = ac.ruleset_name;
  c["group"] = ac.detectorgroup;
  c["uuid"] = ac.action_group_run_uuid;
  if (ac.prekill_hook_timeout_ts) {
    c["deadline"] = (Json::Int64)std::chrono::duration_cast<std::chrono::nanoseconds>(
                        ac.prekill_hook_timeout_ts->time_since_epoch())
                        .count();
  } else {
    c["deadline"] = Json::Value();
  }
  if (ac.target_cgroup) {
    c["target"] = rel_of(*ac.target_cgroup);
  } else {
    c["target"] = Json::Value();
  }
  return c;
}

std::string script_next(const std::string& id, const std::string& cg, uint64_t idx) {
  const Json::Value& scripts = g.scn["scripts"];
  const Json::Value* s = nullptr;
  std::string k = id + "@" + cg;
  if (scripts.isMember(k)) {
    s = &scripts[k];
  } else if (scripts.isMember(id)) {
    s = &scripts[id];
  }
  if (!s) {
    return "C";
  }
  if (s->isString()) {
    std::string str = s->asString();
    if (str.empty()) {
      return "C";
    }
    return std::string(1, str[std::min<size_t>(idx, str.size() - 1)]);
  }
  if (s->isArray() && s->size() > 0) {
    return (*s)[std::min<Json::ArrayIndex>(idx, s->size() - 1)].asString();
  }
  return "C";
}

static Oomd::Engine::PluginRet to_ret(char c) {
  switch (c) {
    case 'S':
      return Oomd::Engine::PluginRet::STOP;
    case 'A':
      return Oomd::Engine::PluginRet::ASYNC_PAUSED;
    default:
      return Oomd::Engine::PluginRet::CONTINUE;
  }
}

static Json::Value args_json(const Oomd::Engine::PluginArgs& args) {
  Json::Value a(Json::objectValue);
  for (const auto& kv : args) {
    a[kv.first] = kv.second;
  }
  return a;
}

class VBase : public Oomd::Engine::BasePlugin {
 public:
  explicit VBase(const char* kind) : kind_(kind), inst_(++g_inst) {}
  int init(const Oomd::Engine::PluginArgs& args, const Oomd::PluginConstructionContext& context) override {
    auto it = args.find("id");
    id_ = it == args.end() ? "?" : it->second;
    auto d = args.find("post_action_delay");
    bool bad_delay = false;
    if (d != args.end()) {
      try {
        delay_ = std::stoi(d->second);
      } catch (const std::exception&) {
        bad_delay = true;
      }
    }
    auto f = args.find("init_fail");
    Json::Value e;
    e["ev"] = "plugin";
    e["kind"] = kind_;
    e["m"] = "init";
    e["id"] = id_;
    e["inst"] = (Json::UInt64)inst_;
    e["args"] = args_json(args);
    e["cgroup_fs"] = context.cgroupFs();
    ev(e);
    if (f != args.end() || bad_delay) {
      return 1;
    }
    return 0;
  }
  void prerun(Oomd::OomdContext& ctx) override {
    Json::Value e;
    e["ev"] = "plugin";
    e["kind"] = kind_;
    e["m"] = "prerun";
    e["id"] = id_;
    e["inst"] = (Json::UInt64)inst_;
    auto rc = ctx.getRulesetCgroup();
    e["rcg"] = rc ? Json::Value(rel_of(*rc)) : Json::Value();
    ev(e);
  }
  Oomd::Engine::PluginRet run(Oomd::OomdContext& ctx) override {
    auto rc = ctx.getRulesetCgroup();
    std::string cg = rc ? rel_of(*rc) : "";
    std::string tok = script_next(id_, cg, calls_++);
    Json::Value e;
    e["ev"] = "plugin";
    e["kind"] = kind_;
    e["m"] = "run";
    e["id"] = id_;
    e["inst"] = (Json::UInt64)inst_;
    e["rcg"] = rc ? Json::Value(cg) : Json::Value();
    e["ctx"] = ctx_json(ctx.getActionContext());
    e["call"] = (Json::UInt64)(calls_ - 1);
    e["ret"] = tok.substr(0, 1);
    e["tok"] = tok;
    e["has_rs"] = ctx.getInvokingRuleset().has_value();
    ev(e);
    auto plus = tok.find('+');
    if (plus != std::string::npos) {
      // spend virtual time inside run()
      double s = atof(tok.c_str() + plus + 1);
      struct timespec ts;
      ts.tv_sec = (time_t)s;
      ts.tv_nsec = (long)((s - (time_t)s) * 1e9);
      ::nanosleep(&ts, nullptr);
    }
    auto ret = to_ret(tok.empty() ? 'C' : tok[0]);
    if (ret == Oomd::Engine::PluginRet::STOP && delay_ >= 0 && std::string(kind_) == "act") {
      auto rs = ctx.getInvokingRuleset();
      if (rs) {
        (*rs)->pause_actions(std::chrono::seconds(delay_));
      }
    }
    return ret;
  }
  ~VBase() override {
    Json::Value e;
    e["ev"] = "plugin";
    e["kind"] = kind_;
    e["m"] = "destroy";
    e["id"] = id_;
    e["inst"] = (Json::UInt64)inst_;
    ev(e);
  }

 protected:
  const char* kind_;
  uint64_t inst_;
  std::string id_;
  int delay_{-1};
  uint64_t calls_{0};
};

class VDet : public VBase {
 public:
  VDet() : VBase("det") {}
  static VDet* create() {
    return new VDet();
  }
};
class VAct : public VBase {
 public:
  VAct() : VBase("act") {}
  static VAct* create() {
    return new VAct();
  }
};

// ------------------------------------------------------------------ v_probe
template <typename T>
static Json::Value jopt_i(const std::optional<T>& v) {
  return v ? Json::Value((Json::Int64)*v) : Json::Value();
}
static Json::Value jopt_d(const std::optional<double>& v) {
  return v ? Json::Value(*v) : Json::Value();
}
static Json::Value jpress(const std::optional<Oomd::ResourcePressure>& p) {
  if (!p) {
    return Json::Value();
  }
  Json::Value a(Json::arrayValue);
  a.append((double)p->sec_10);
  a.append((double)p->sec_60);
  a.append((double)p->sec_300);
  a.append(p->total ? Json::Value((Json::Int64)p->total->count()) : Json::Value());
  return a;
}

#define PROBE(name, expr)                                          \
  try {                                                            \
    v[name] = (expr);                                              \
  } catch (const std::exception& ex) {                             \
    v[name] = std::string("EXC:") + ex.what();                     \
  }

static Json::Value probe_cgroup(const Oomd::CgroupContext& c) {
  Json::Value v(Json::objectValue);
  PROBE("id", jopt_i(c.id()));
  PROBE("children", [&] {
    const auto& ch = c.children();
    if (!ch) {
      return Json::Value();
    }
    Json::Value a(Json::arrayValue);
    for (auto& s : *ch) {
      a.append(s);
    }
    return a;
  }());
  PROBE("mem_pressure", jpress(c.mem_pressure()));
  PROBE("mem_pressure_some", jpress(c.mem_pressure_some()));
  PROBE("io_pressure", jpress(c.io_pressure()));
  PROBE("io_pressure_some", jpress(c.io_pressure_some()));
  PROBE("memory_stat", [&] {
    const auto& ms = c.memory_stat();
    if (!ms) {
      return Json::Value();
    }
    Json::Value o(Json::objectValue);
    for (auto& kv : *ms) {
      o[kv.first] = (Json::Int64)kv.second;
    }
    return o;
  }());
  PROBE("io_stat", [&] {
    const auto& io = c.io_stat();
    if (!io) {
      return Json::Value();
    }
    Json::Value a(Json::arrayValue);
    for (auto& d : *io) {
      Json::Value o;
      o["dev"] = d.dev_id;
      o["rbytes"] = (Json::Int64)d.rbytes;
      o["wbytes"] = (Json::Int64)d.wbytes;
      o["rios"] = (Json::Int64)d.rios;
      o["wios"] = (Json::Int64)d.wios;
      o["dbytes"] = (Json::Int64)d.dbytes;
      o["dios"] = (Json::Int64)d.dios;
      a.append(o);
    }
    return a;
  }());
  PROBE("current_usage", jopt_i(c.current_usage()));
  PROBE("swap_usage", jopt_i(c.swap_usage()));
  PROBE("swap_max", jopt_i(c.swap_max()));
  PROBE("memory_low", jopt_i(c.memory_low()));
  PROBE("memory_min", jopt_i(c.memory_min()));
  PROBE("memory_high", jopt_i(c.memory_high()));
  PROBE("memory_high_tmp", jopt_i(c.memory_high_tmp()));
  PROBE("memory_max", jopt_i(c.memory_max()));
  PROBE("nr_dying_descendants", jopt_i(c.nr_dying_descendants()));
  PROBE("is_populated", [&] {
    auto p = c.is_populated();
    return p ? Json::Value(*p) : Json::Value();
  }());
  PROBE("kill_preference", [&] {
    auto p = c.kill_preference();
    return p ? Json::Value((int)*p) : Json::Value();
  }());
  PROBE("oom_group", [&] {
    auto p = c.oom_group();
    return p ? Json::Value(*p) : Json::Value();
  }());
  PROBE("effective_swap_max", jopt_i(c.effective_swap_max()));
  PROBE("effective_swap_free", jopt_i(c.effective_swap_free()));
  PROBE("effective_swap_util_pct", jopt_d(c.effective_swap_util_pct()));
  PROBE("memory_protection", jopt_i(c.memory_protection()));
  PROBE("io_cost_cumulative", jopt_d(c.io_cost_cumulative()));
  PROBE("pg_scan_cumulative", jopt_i(c.pg_scan_cumulative()));
  PROBE("average_usage", jopt_i(c.average_usage()));
  PROBE("io_cost_rate", jopt_d(c.io_cost_rate()));
  PROBE("pg_scan_rate", jopt_i(c.pg_scan_rate()));
  PROBE("anon_usage", jopt_i(c.anon_usage()));
  PROBE("file_usage", jopt_i(c.file_usage()));
  PROBE("shmem_usage", jopt_i(c.shmem_usage()));
  PROBE("effective_usage", jopt_i(c.effective_usage()));
  PROBE("memory_growth", jopt_d(c.memory_growth()));
  return v;
}

class VProbe : public Oomd::Engine::BasePlugin {
 public:
  int init(const Oomd::Engine::PluginArgs& args, const Oomd::PluginConstructionContext& context) override {
    auto it = args.find("id");
    id_ = it == args.end() ? "probe" : it->second;
    auto c = args.find("cgroup");
    if (c != args.end()) {
      cgroups_ = Oomd::PluginArgParser::parseCgroup(context, c->second);
    }
    twice_ = args.count("twice") > 0;
    in_prerun_ = args.count("in_prerun") > 0;
    return 0;
  }
  void dump(Oomd::OomdContext& ctx, int pass, const char* where) {
    Json::Value e;
    e["ev"] = "probe";
    e["id"] = id_;
    e["pass"] = pass;
    e["where"] = where;
    Json::Value cgs(Json::objectValue);
    // "probe_mid_ops": {tick: {"after": n, "ops": [...]}} - the world changes after the n-th cgroup of the first pass was probed,
    // i.e. between two queries of one tick
    const Json::Value& mid = g.scn["probe_mid_ops"];
    const std::string tk = std::to_string(g.tick);
    int idx = 0;
    Json::Value order(Json::arrayValue);
    for (const Oomd::CgroupContext& c : ctx.addToCacheAndGet(cgroups_)) {
      std::string rel = c.cgroup().relativePath();
      cgs[rel.empty() ? "/" : rel] = probe_cgroup(c);
      order.append(rel.empty() ? "/" : rel);
      ++idx;
      if (pass == 0 && mid.isMember(tk) && mid[tk]["after"].asInt() == idx) {
        apply_ops(mid[tk]["ops"]);
        e["mid_ops_after"] = rel;
      }
    }
    e["cgs"] = cgs;
    e["order"] = order;
    const auto& s = ctx.getSystemContext();
    Json::Value sys;
    sys["swaptotal"] = (Json::UInt64)s.swaptotal;
    sys["swapused"] = (Json::UInt64)s.swapused;
    sys["swappiness"] = s.swappiness;
    sys["swapout_bps"] = s.swapout_bps;
    sys["swapout_bps_60"] = s.swapout_bps_60;
    sys["swapout_bps_300"] = s.swapout_bps_300;
    sys["vmstat_n"] = (Json::UInt64)s.vmstat.size();
    e["sys"] = sys;
    e["cur_tick"] = (Json::UInt64)ctx.getCurrentTick();
    ev(e);
  }
  void prerun(Oomd::OomdContext& ctx) override {
    if (in_prerun_) {
      dump(ctx, 0, "prerun");
    }
  }
  Oomd::Engine::PluginRet run(Oomd::OomdContext& ctx) override {
    dump(ctx, 0, "run");
    if (twice_) {
      const Json::Value& po = g.scn["probe_ops"];
      std::string k = std::to_string(g.tick);
      if (po.isMember(k)) {
        apply_ops(po[k]);
      }
      dump(ctx, 1, "run");
    }
    return Oomd::Engine::PluginRet::CONTINUE;
  }
  static VProbe* create() {
    return new VProbe();
  }

 private:
  std::string id_;
  std::unordered_set<Oomd::CgroupPath> cgroups_;
  bool twice_{false};
  bool in_prerun_{false};
};

// ------------------------------------------------------------------ v_hook
static std::atomic<uint64_t> g_inv{0};

class VHookInvocation : public Oomd::Engine::PrekillHookInvocation {
 public:
  VHookInvocation(std::string id, uint64_t inv, Json::Value spec)
      : id_(std::move(id)), inv_(inv), spec_(std::move(spec)) {}
  bool didFinish() override {
    bool fin = false;
    if (spec_.isMember("polls")) {
      int n = spec_["polls"].asInt();
      fin = n >= 0 && polls_ >= n;
    } else if (spec_.isMember("at_ns")) {
      fin = g.now_ns >= spec_["at_ns"].asInt64();
    } else {
      fin = true;
    }
    polls_++;
    Json::Value e;
    e["ev"] = "hook";
    e["m"] = "didFinish";
    e["id"] = id_;
    e["inv"] = (Json::UInt64)inv_;
    e["ret"] = fin;
    ev(e);
    return fin;
  }
  ~VHookInvocation() override {
    Json::Value e;
    e["ev"] = "hook";
    e["m"] = "destroy";
    e["id"] = id_;
    e["inv"] = (Json::UInt64)inv_;
    ev(e);
  }

 private:
  std::string id_;
  uint64_t inv_;
  Json::Value spec_;
  int polls_{0};
};

class VHook : public Oomd::Engine::PrekillHook {
 public:
  int init(const Oomd::Engine::PluginArgs& args, const Oomd::PluginConstructionContext& context) override {
    auto copy = args;
    auto it = copy.find("id");
    id_ = it == copy.end() ? "?" : it->second;
    copy.erase("id");
    bool fail = copy.count("init_fail") > 0;
    copy.erase("init_fail");
    Json::Value e;
    e["ev"] = "hook";
    e["m"] = "init";
    e["id"] = id_;
    e["args"] = args_json(args);
    ev(e);
    if (fail) {
      return 1;
    }
    return Oomd::Engine::PrekillHook::init(copy, context);
  }
  std::unique_ptr<Oomd::Engine::PrekillHookInvocation> fire(
      const Oomd::CgroupContext& cgroup_ctx,
      const Oomd::ActionContext& action_ctx) override {
    uint64_t inv = ++g_inv;
    const Json::Value& hs = g.scn["hooks"];
    Json::Value spec(Json::objectValue);
    if (hs.isMember(id_)) {
      const Json::Value& h = hs[id_];
      if (h.isArray() && h.size() > 0) {
        spec = h[std::min<Json::ArrayIndex>(fires_, h.size() - 1)];
      } else if (h.isObject()) {
        spec = h;
      }
    }
    fires_++;
    Json::Value e;
    e["ev"] = "hook";
    e["m"] = "fire";
    e["id"] = id_;
    e["inv"] = (Json::UInt64)inv;
    e["victim"] = cgroup_ctx.cgroup().relativePath();
    auto vid = cgroup_ctx.id();
    e["victim_id"] = vid ? Json::Value((Json::UInt64)*vid) : Json::Value();
    e["ctx"] = ctx_json(action_ctx);
    e["spec"] = spec;
    ev(e);
    return std::unique_ptr<Oomd::Engine::PrekillHookInvocation>(new VHookInvocation(id_, inv, spec));
  }
  static VHook* create() {
    return new VHook();
  }

 private:
  std::string id_;
  Json::ArrayIndex fires_{0};
};

} // namespace vh

namespace Oomd {
REGISTER_PLUGIN(v_det, vh::VDet::create);
REGISTER_PLUGIN(v_act, vh::VAct::create);
REGISTER_PLUGIN(v_probe, vh::VProbe::create);
REGISTER_PREKILL_HOOK(v_hook, vh::VHook::create);
} // namespace Oomd
