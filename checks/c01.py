"""C01 Kill containment — observed at the real kill(2)/setxattr(2)/write(2) boundary."""
import random

from vlib import core, world as W, model, killgen as KG
from oracles import killtrace as KT, path as P, kill as K

ID = "C01"
LEVEL = "exploration"
FLAVORS = ["asan"]
RULE = ("random cgroup trees (depth<=3, fan-out<=5, prefix-sharing names svc/svc1/svc10/svc-a, empty and populated cgroups, "
        "0/1/19/20/21/45 and 600-1300 pids (cgroup.procs longer than a page), pid-0 lines), all five kill plugins x {single, multi, wildcard patterns} x recursive x kernelkill x "
        "reap_memory x always_continue, scripted per-pid kill results (ok/ESRCH/EPERM), 2-4 tick histories with cgroups vanishing / "
        "appearing between ticks; every kill(2), setxattr(2), cgroup.kill/cgroup.freeze write and reap syscall of the real plugin "
        "is checked: SIGKILL only, pid>0, pid listed in the victim's subtree, victim eligible under the configured patterns, "
        "xattr/control-file writes only on the victim, at most one victim signalled per invocation and it is the last one attempted "
        "(a cgroup.kill write counts as signalling; half of the kernelkill cases use cgroup-v2 shaped trees whose inner nodes have no own processes "
        "and a hierarchical / zero / absent pids.current). "
        "non-trivial = >=1 kill(2) or cgroup.kill write observed; distinct by scenario hash")
ASSUMPTIONS = ["kill(2) is interposed and never reaches the kernel; a successful kill removes the pid from cgroup.procs at the next open",
               "pids are unique per scenario so every signal identifies its cgroup",
               "xattrs emulated by inode; tmpfs directories stand in for kernfs"]


def pids_big(rng, n):
    """n distinct pids far above the small ones the tree generator hands out, mixed widths"""
    out = set()
    while len(out) < n:
        out.add(rng.choice([rng.randint(20000, 99999), rng.randint(100000, 999999), rng.randint(1000000, 4194303)]))
    return sorted(out)


def gen(rng, cid, tier, plugin=None, pid0=True):
    plugin = plugin or rng.choice(KG.PLUGINS)
    pidcounts = rng.choice([(0, 1, 2, 3), (0, 1, 19, 20, 21), (0, 2, 45), (0, 0, 1, 5)])
    cgs, info, pids = KG.gen_tree(rng, depth=rng.choice([1, 2, 3]), fan=rng.choice([2, 3, 5]), pidcounts=pidcounts)
    # a sibling tree outside every pattern, sharing a name prefix with the base
    cg2, info2, _ = KG.gen_tree(rng, base="wl2", depth=1, fan=2, pidcounts=(1, 2), pids=pids)
    cg2.pop("/")
    cgs.update(cg2)
    pats = KG.patterns_for(rng, info)
    args = KG.kill_args(rng, plugin, pats)
    if rng.random() < 0.25:
        args["kernelkill"] = "true"
        if rng.random() < 0.5:
            # several flat candidates whose processes all live in sub-cgroups
            KG.kernelkill_inner_nodes(rng, cgs, info, args)
            pats = [args["cgroup"]]
    if rng.random() < 0.06 and not args.get("kernelkill"):
        # a big cgroup: its cgroup.procs is longer than one page (and than stdio's buffer), pids of 5-7 digits
        r = rng.choice([x for x in info if info[x]["pids"]] or list(info))
        big = pids_big(rng, rng.randint(600, 1300))
        info[r]["pids"] = info[r]["pids"] + big
        cgs[r]["files"]["cgroup.procs"] += "".join("%d\n" % p for p in big)
        cgs[r]["files"]["cgroup.events"] = "populated 1\nfrozen 0\n"
    allpids = [p for r in list(info) + list(info2) for p in (info.get(r) or info2.get(r))["pids"]]
    kill = {"default": "ok", "pids": {}}
    mode = rng.random()
    if mode < 0.35:
        for p in allpids:
            if rng.random() < 0.4:
                kill["pids"][str(p)] = rng.choice(["ESRCH", "EPERM"])
    elif mode < 0.45:
        kill["default"] = "ESRCH"
    if pid0 and rng.random() < 0.15:
        r = rng.choice(list(info))
        cgs[r]["files"]["cgroup.procs"] = "0\n" + cgs[r]["files"]["cgroup.procs"]
    nticks = rng.randint(2, 4)
    ticks = []
    rels = sorted(info)
    for t in range(nticks):
        ops = []
        if t > 0 and rng.random() < 0.5:
            for r in rng.sample(rels, min(len(rels), rng.randint(1, 2))):
                if r == "wl":
                    continue
                if rng.random() < 0.5:
                    ops.append({"op": "rm", "cg": r})
                else:
                    spec, _ = KG.gen_node(rng, pids, pidcounts=(1, 2))
                    ops.append(dict(op="mk", cg=r + "/new%d" % t, **spec))
        if t > 0 and plugin in ("kill_by_pg_scan", "kill_by_io_cost"):
            for r in rels:
                if rng.random() < 0.7:
                    st = {"pgscan": rng.randint(0, 10**7), "anon": 5, "file": 5}
                    ops.append({"op": "write", "cg": r, "file": "memory.stat", "text": W.memstat(st)})
                    ops.append({"op": "write", "cg": r, "file": "io.stat", "text": KG.iostat_text(rng, 2)})
        ticks.append({"step_ns": 10**9, "ops": ops})
    linger = {}
    if rng.random() < 0.2 and allpids:
        linger[str(rng.choice(allpids))] = rng.randint(1, 3)
    hooks, hspec, extra = None, {}, None
    if rng.random() < 0.2:
        # a prekill hook that matches every cgroup and needs 1-3 more ticks: the victim is picked on one tick and killed on a
        # later one, from what was saved in between
        hooks = [{"name": "v_hook", "args": {"id": "h0", "cgroup": "/"}}]
        hspec = {"h0": [{"polls": rng.choice([1, 1, 2, 3])} for _ in range(8)]}
        extra = {"prekill_hook_timeout": "60"}
        for _ in range(3):
            ticks.append({"step_ns": 10**9, "ops": []})
    scn = KG.base_scn(cid, cgs, KG.kill_config(plugin, args, extra, hooks=hooks), ticks=ticks, kill=kill, linger=linger, hooks=hspec)
    if rng.random() < 0.15:
        scn["dtype_unknown"] = True  # children discovered through the lstat fallback
    if rng.random() < 0.1:
        scn["xattr_fail"] = rng.choice(["EPERM", "ENOTSUP"])
    if rng.random() < (0.5 if args.get("kernelkill") else 0.15):
        # transient cgroups: the manager rmdir()s a leaf the moment cgroup.kill was written / its last process was signalled,
        # so whatever oomd still does to the victim after the point of no return fails
        scn["vanish_after_kill"] = True
    return scn, {"plugin": plugin, "patterns": pats, "args": args}


def cases(seed, tier):
    n = 1000 if tier == "quick" else 6000
    rng = random.Random(seed * 1000003 + 1)
    for i in range(n):
        cid = "C01-%d-%d" % (seed, i)
        scn, meta = gen(rng, cid, tier)
        yield core.Case(cid, [scn], meta)


def containment(v, scn, res, args, prop_rules=True):
    """shared with C10: containment rules over one trace. Returns (#kills, #invocations)."""
    ws = model.worlds_per_tick(scn)
    invs = KT.parse(res.events)
    pats = args["cgroup"].split(",")
    recursive = K.parse_bool(args.get("recursive"))
    nk = 0
    for inv in invs:
        if inv.tick >= len(ws):
            continue
        w = ws[inv.tick]
        # pid -> cgroup at this tick (scenario world; oomd's own kills only ever shrink it)
        pid_cg = {}
        for rel in w.cg:
            for p in w.pids(rel):
                pid_cg[p] = rel
        for e in inv.stray:
            if e["ev"] in ("kill",):
                v.bad("signal-outside-attempt", "", "tick %d: kill(%s,%s) with no victim marked" % (inv.tick, e["pid"], e["sig"]))
            elif e["ev"] == "setxattr":
                v.bad("xattr-outside-attempt", e["name"].split(".", 1)[1], "tick %d: setxattr %s on %s before any victim was marked" % (inv.tick, e["name"], e["path"]))
            elif e["ev"] == "write" and e["path"].startswith("/cg"):
                v.bad("control-write-outside-attempt", e["path"].rsplit("/", 1)[1], "tick %d: write to %s outside an attempt" % (inv.tick, e["path"]))
        signalled_before = False
        for ai, a in enumerate(inv.attempts):
            if signalled_before:
                v.bad("second-victim-after-success", "", "tick %d: victim %s attempted after an earlier victim was already signalled (attempts %s)" % (
                    inv.tick, a.victim, [x.victim for x in inv.attempts]))
            if a.victim is None or a.victim not in w.cg:
                v.bad("victim-not-a-cgroup", "", "tick %d: victim %r does not exist" % (inv.tick, a.victim))
                continue
            if not K.victim_eligible(a.victim, pats, w.dirs(), recursive):
                v.bad("victim-not-eligible", "recursive" if recursive else "flat", "tick %d: victim %s not matched by %s (recursive=%s)" % (inv.tick, a.victim, pats, recursive))
            sub = set(w.subtree(a.victim)) if a.victim != "" else set(w.cg)
            kernel_killed = False
            for k in a.kills:
                nk += 1
                if k["sig"] != 9:
                    v.bad("signal-not-sigkill", str(k["sig"]), "tick %d: kill(%d, %d)" % (inv.tick, k["pid"], k["sig"]))
                if k["pid"] <= 0:
                    v.bad("kill-nonpositive-pid", "pid=%d listed in cgroup.procs" % k["pid"], "tick %d victim %s: kill(%d, SIGKILL) signals a process group / everything" % (inv.tick, a.victim, k["pid"]))
                    continue
                c = pid_cg.get(k["pid"])
                if c is None:
                    v.bad("kill-unlisted-pid", "", "tick %d victim %s: pid %d is not listed in any cgroup.procs" % (inv.tick, a.victim, k["pid"]))
                elif c not in sub:
                    v.bad("kill-outside-victim", "", "tick %d victim %s: pid %d belongs to %s" % (inv.tick, a.victim, k["pid"], c))
            for e in a.setx:
                if KT.cgrel(e["path"]) != a.victim:
                    v.bad("xattr-on-other-cgroup", e["name"].split(".", 1)[1], "tick %d victim %s: setxattr %s on %s" % (inv.tick, a.victim, e["name"], e["path"]))
            for e in a.writes:
                d, f = e["path"].rsplit("/", 1)
                if KT.cgrel(d) != a.victim:
                    v.bad("control-write-on-other-cgroup", f, "tick %d victim %s: write %r to %s" % (inv.tick, a.victim, e["data"][:20], e["path"]))
                if f == "cgroup.kill":
                    nk += 1
                    if not e.get("fault"):
                        # the kernel signals every process of a populated cgroup on this write (oomd only writes it after
                        # reading populated=1), so this victim counts as signalled whatever oomd thinks it killed
                        kernel_killed = True
            if a.ok_kills or kernel_killed:
                signalled_before = True
    return nk, len(invs)


def judge(case, results):
    v = core.Verdict()
    res, scn = results[0], case.scns[0]
    cr = core.classify_crash(res) if res.crashed else core.exception_outcome(res)
    if cr:
        v.bad("crash:" + cr[0], cr[1], cr[2])
        return v
    nk, ni = containment(v, scn, res, case.meta["args"])
    if scn.get("hooks"):
        # the hook was fired for the cgroup oomd selected: what it then marks and signals is that cgroup, not another one
        pending = None
        for e in res.events:
            if e.get("ev") == "hook" and e["m"] == "fire":
                pending = e["victim"]
                v.count("hook_fires")
            elif e.get("ev") == "setxattr" and e["name"] == "trusted.oomd_kill_uuid" and pending is not None:
                vic = KT.cgrel(e["path"])
                if vic != pending:
                    v.bad("victim-differs-from-selected", "after-prekill-hook", "tick %s: the prekill hook was fired for %s, then %s was marked and killed" % (e.get("tick"), pending, vic))
                pending = None
    v.count("kill_or_cgroupkill_events", nk)
    v.count("invocation_ticks", ni)
    v.count("victims_removed_mid_kill", sum(1 for e in res.events if e.get("ev") == "vanish"))
    v.count("plugin:" + case.meta["plugin"])
    for k in ("recursive", "kernelkill"):
        if case.meta["args"].get(k) == "true":
            v.count(k)
    v.nontrivial = nk > 0
    v.sig = core.scn_hash(scn)
    return v


def sample(case, v):
    s = case.scns[0]
    return {"case": case.id, "plugin": case.meta["plugin"], "args": case.meta["args"], "cgroups": sorted(s["cgroups"].keys()),
            "kill_results": s.get("kill"), "observed": v.stats}
