"""C12 A configuration is either rejected cleanly or honoured exactly."""
import copy
import json
import multiprocessing as mp
import os
import random
import re
import shutil
import subprocess
from fractions import Fraction as F

from vlib import core, pure, world as W
from oracles import config as C

ID = "C12"
LEVEL = "exploration"
FLAVORS = ["asan"]
RULE = ("(a) totality: JSON syntax garbage plus shape mutation enumerated at EVERY node of three seed documents (node replaced by each of "
        "null,true,5,1.5,\"s\",[],{},[1],{\"a\":1}) through both real load paths - the CLI (`oomd --check-config`: exit 0 accepted, 1 rejected, "
        "anything else is a crash) and the run-time drop-in path (parse inside catch(std::exception) as processDropInAdd does, then "
        "scheduleDropInAdd with nothing around it, then a tick: a refused drop-in must leave the engine's tick trace unchanged); "
        "(b) accepted <=> valid: generated IRs over the registered core plugins with valid / invalid / missing / unknown arguments judged "
        "against per-plugin tables (name, type, range, required) taken from the docs; accepted scripted plugins must be initialised in "
        "config order with exactly the given arguments; (c) numbers: Util::parseSize / parseSizeOrPercent and the typed readers against "
        "exact rational arithmetic on a hand-built corpus (1.5G 32K, bare MB, N%, signs, trailing garbage, 1e30, nan, inf, 99999999999T, "
        "values around 2^31/2^32/2^53/2^63) and random strings: accepted => equals the exact value (fractional bytes may be floored or "
        "rounded), overflow / non-finite => rejected; a drop-in naming an unknown base ruleset in any position of its ruleset list is refused as a whole. non-trivial = both an accepted and a rejected input seen; distinct by input")
ASSUMPTIONS = ["validity tables in oracles/config.py are the reading of docs/core_plugins.md; whitespace around a number, an explicit '+', "
               "negative sizes and exponent notation in sizes are don't-care",
               "an exception out of parse() is a legitimate reject on the drop-in path (the caller catches std::exception) but a crash at the CLI"]
SERIAL_JUDGE = True

REPL = [None, True, 5, 1.5, "s", [], {}, [1], {"a": 1}]
SEED_CLI = {"rulesets": [{"name": "r1", "drop-in": {"detectors": True, "actions": False, "disable-on-drop-in": True},
                          "silence-logs": "engine,plugins", "post_action_delay": "10", "prekill_hook_timeout": "3",
                          "detectors": [["g1", {"name": "pressure_above", "args": {"cgroup": "system.slice", "resource": "memory", "threshold": "60", "duration": 5}},
                                         {"name": "memory_reclaim", "args": {"cgroup": "system.slice", "duration": "10"}}],
                                        ["g2", {"name": "swap_free", "args": {"threshold_pct": "15"}}]],
                          "actions": [{"name": "kill_by_memory_size_or_growth", "args": {"cgroup": "system.slice/*", "recursive": True}},
                                      {"name": "kill_by_swap_usage", "args": {"cgroup": "*", "threshold": "5%"}}]},
                         {"name": "r2", "cgroup": "workload.slice/*", "xattr_filter": "user.x",
                          "detectors": [["g", {"name": "exists", "args": {"cgroup": "a,b", "negate": "true"}}]],
                          "actions": [{"name": "senpai", "args": {"cgroup": "workload.slice", "interval": "3", "max_probe": 0.05}}]}],
            "prekill_hooks": [{"name": "dummy_prekill_hook", "args": {"cgroup": "/"}}]}
SEED_BASE = {"rulesets": [{"name": "r1", "drop-in": {"detectors": True, "actions": True}, "post_action_delay": "0",
                           "detectors": [["g1", W.det("b.d1"), W.det("b.d2")]], "actions": [W.act("b.a1"), W.act("b.a2")]},
                          {"name": "r2", "drop-in": {"detectors": False, "actions": True, "disable-on-drop-in": True},
                           "detectors": [["g", W.det("b2.d")]], "actions": [W.act("b2.a")]}],
             "prekill_hooks": [{"name": "v_hook", "args": {"id": "bh", "cgroup": "/"}}]}
SEED_DROPIN = {"rulesets": [{"name": "r1", "post_action_delay": "3", "prekill_hook_timeout": "1", "silence-logs": "engine",
                             "detectors": [["dg", W.det("d.d1")]], "actions": [W.act("d.a1", post_action_delay=2)]},
                            {"name": "r2", "actions": [W.act("d2.a")]}],
               "prekill_hooks": [{"name": "v_hook", "args": {"id": "dh", "cgroup": "a/*"}}]}


def nodes(doc, path=()):
    yield path
    if isinstance(doc, dict):
        for k in doc:
            yield from nodes(doc[k], path + (k,))
    elif isinstance(doc, list):
        for i, x in enumerate(doc):
            yield from nodes(x, path + (i,))


def replace_at(doc, path, val):
    if not path:
        return copy.deepcopy(val)
    d = copy.deepcopy(doc)
    cur = d
    for p in path[:-1]:
        cur = cur[p]
    cur[path[-1]] = copy.deepcopy(val)
    return d


def mutated_docs(seed_doc, sample=None, rng=None):
    out = []
    for p in nodes(seed_doc):
        for r in REPL:
            out.append((json.dumps(replace_at(seed_doc, p, r)), {"path": list(p), "repl": r}))
        if p:  # also delete the node
            d = copy.deepcopy(seed_doc)
            cur = d
            for q in p[:-1]:
                cur = cur[q]
            if isinstance(cur, dict):
                del cur[p[-1]]
            else:
                cur.pop(p[-1])
            out.append((json.dumps(d), {"path": list(p), "repl": "<deleted>"}))
    if sample and len(out) > sample:
        out = rng.sample(out, sample)
    return out


def garbage_docs(rng, seed_doc, n):
    base = json.dumps(seed_doc)
    out = ["", " ", "{", "}", "[", "null", "5", "\"x\"", "{\"rulesets\":", "{\"rulesets\":[}", "{\"rulesets\":[{]}", "\x00", "\xff\xfe",
           "{\"rulesets\": [], \"rulesets\": 5}", "// only a comment", "{\"rulesets\":[{\"name\":\"r\",\"name\":5}]}",
           "[" * 2000 + "]" * 2000, "{\"rulesets\":[{\"name\":\"r\",\"post_action_delay\":1e400}]}", "{\"a\":" * 600 + "1" + "}" * 600,
           "{\"rulesets\":[{\"name\":\"\\ud800\"}]}", base[:len(base) // 2], base + base, base.replace(":", "=")]
    for _ in range(n):
        b = list(base)
        for _ in range(rng.randint(1, 4)):
            i = rng.randrange(len(b))
            op = rng.random()
            if op < 0.4:
                b[i] = rng.choice("{}[]\",:x0\\\n\x01")
            elif op < 0.7:
                del b[i]
            else:
                b.insert(i, rng.choice("{}[]\",:-e."))
        out.append("".join(b))
    return [(d, {"garbage": d[:60]}) for d in out]


# ------------------------------------------------------------------ CLI runs
def _cli(args):
    binpath, text, work, i = args
    f = os.path.join(work, "c%d.json" % i)
    with open(f, "w", errors="surrogateescape") as fh:
        fh.write(text)
    env = dict(os.environ)
    env.update(pure.ENV)
    env["INLINE_LOGGING"] = "1"
    try:
        p = subprocess.run([binpath, "--check-config", f, "--kmsg-override", "/dev/null"], env=env, stdout=subprocess.DEVNULL,
                           stderr=subprocess.PIPE, timeout=60)
        rc, err = p.returncode, p.stderr.decode(errors="replace")
    except subprocess.TimeoutExpired:
        rc, err = "timeout", ""
    os.unlink(f)
    return rc, err[-5000:]


def run_cli(texts):
    import build as vbuild
    bdir = vbuild.build("asan", quiet=True)
    work = "/dev/shm/vcli.%d" % os.getpid()
    os.makedirs(work, exist_ok=True)
    jobs = [(os.path.join(bdir, "oomd.asan"), t, work, i) for i, t in enumerate(texts)]
    with mp.Pool(core.NPROC) as pool:
        res = pool.map(_cli, jobs, chunksize=8)
    shutil.rmtree(work, ignore_errors=True)
    return res


def cli_crash_key(rc, err):
    m = re.search(r"terminate called after throwing an instance of '([^']+)'", err)
    if m:
        w = re.search(r"what\(\):\s*(.*)", err)
        what = re.sub(r"\d+", "N", w.group(1))[:60] if w else ""
        return ("cli-uncaught-exception", "%s: %s" % (m.group(1), what), err[-1500:])
    r = core.Result({}, [], {"exit": rc if isinstance(rc, int) and rc > 0 else 0, "signal": -rc if isinstance(rc, int) and rc < 0 else 0,
                              "timeout": rc == "timeout"}, err)
    ck = core.classify_crash(r)
    return ("cli-" + ck[0], ck[1], ck[2]) if ck else ("cli-exit", str(rc), err[-1500:])


# ------------------------------------------------------------------ monitors
def judge_totality(v, tier, seed):
    rng = random.Random(seed * 13 + 12)
    quick = tier != "thorough"
    cli_docs = mutated_docs(SEED_CLI, 700 if quick else None, rng) + garbage_docs(rng, SEED_CLI, 150 if quick else 1500)
    res = run_cli([d for d, _ in cli_docs])
    acc = rej = 0
    for (doc, meta), (rc, err) in zip(cli_docs, res):
        if rc == 0:
            acc += 1
        elif rc == 1:
            rej += 1
        else:
            ck = cli_crash_key(rc, err)
            v.bad(ck[0], ck[1], "oomd --check-config on %s exits %s\n%s" % (meta, rc, ck[2]))
    v.count("cli_accepted", acc)
    v.count("cli_rejected", rej)
    # run-time drop-in path
    dr_docs = mutated_docs(SEED_DROPIN, 500 if quick else None, rng) + garbage_docs(rng, SEED_DROPIN, 100 if quick else 1000)
    qs = [{"q": "dropin_load", "base": json.dumps(SEED_BASE), "dropin": d} for d, _ in dr_docs]
    ans = pure.run_queries(qs)
    a2 = r2 = 0
    for (doc, meta), (a, crash) in zip(dr_docs, ans):
        if crash or a is None:
            ck = pure.crash_key(crash) if crash else ("no-answer", "", "")
            v.bad("dropin-" + ck[0], ck[1], "drop-in %s\n%s" % (meta, ck[2]))
            continue
        if "uncaught" in a:
            v.bad("dropin-uncaught-exception", "%s @ %s" % (a["uncaught"], a.get("throw_site")), "drop-in %s: %s" % (meta, a))
            continue
        if a.get("schedule") == "exception":
            v.bad("dropin-exception-on-watcher-thread", "%s @ %s" % (a["schedule_exc"], a.get("throw_site")),
                  "drop-in %s: scheduleDropInAdd threw %s (%s); nothing catches it on the watcher thread" % (meta, a["schedule_exc"], a.get("schedule_what")))
            continue
        applied = a.get("schedule") is True and a.get("apply") == ["t.json:ok"]
        if applied:
            a2 += 1
        else:
            r2 += 1
            if a["after"] != a["before"]:
                v.bad("refused-dropin-changed-engine", "", "drop-in %s was refused (%s) but the tick trace changed:\n before %s\n after  %s" % (meta, {k: a.get(k) for k in ("parse", "schedule", "apply")}, a["before"], a["after"]))
    v.count("dropin_applied", a2)
    v.count("dropin_refused", r2)
    # a drop-in is honoured exactly or refused as a whole: one ruleset naming a base ruleset that does not exist makes the file
    # invalid wherever in the list it stands
    good1, good2 = SEED_DROPIN["rulesets"]
    typo = dict(good2, name="r2x")
    lists = {"typo": [typo], "typo,good": [typo, good1], "good,typo": [good1, typo], "good,good,typo": [good1, good2, typo], "good,typo,good": [good1, typo, good2]}
    ans = pure.run_queries([{"q": "dropin_load", "base": json.dumps(SEED_BASE), "dropin": json.dumps({"rulesets": l})} for l in lists.values()])
    for (nm, l), (a, crash) in zip(lists.items(), ans):
        v.count("dropin_unknown_target_positions")
        if crash or a is None:
            ck = pure.crash_key(crash) if crash else ("no-answer", "", "")
            v.bad("dropin-" + ck[0], ck[1], "drop-in rulesets %s\n%s" % (nm, ck[2]))
        elif a.get("schedule") is True and a.get("apply") == ["t.json:ok"]:
            v.bad("dropin-with-unknown-target-accepted", "", "drop-in with rulesets [%s] (typo = a base ruleset name that does not exist) was accepted: %s" % (nm, {k: a.get(k) for k in ("parse", "schedule", "apply", "after")}))
        elif a.get("after") != a.get("before"):
            v.bad("refused-dropin-changed-engine", "", "drop-in with rulesets [%s] was refused but the tick trace changed:\n before %s\n after  %s" % (nm, a["before"], a["after"]))
    return acc + a2 > 0 and rej + r2 > 0, len(cli_docs) + len(dr_docs)


BAD_BY_TYPE = {
    "int": ["", "abc", "5x", "5.5", "1e3", "99999999999", "-99999999999", "0x10", "--5", "5 ", "٣"],
    "uint": ["-1", "-0x1", "abc", "5x", "", "4294967296", "1.0"],
    "pctl": ["100", "-1", "1000", "abc", "50%", "5.5"],
    "int64": ["", "abc", "9223372036854775808", "18446744073709551615", "-9223372036854775809", "1.5", "12k", "1e3"],
    "ms": ["", "abc", "1.5", "10ms", "99999999999999999999"],
    "float": ["", "abc", "1.5x", "nan", "inf", "-inf", "1e999", "1,5", "0x1p3"],
    "double": ["", "abc", "0.1.2", "nan", "infinity", "1e9999", "1.0f"],
    "bool": ["yes", "no", "TRUE", "2", "", "t", "true "],
    "sizepct": ["", "abc", "101%", "-1%", "5.5%", "%", "1X", "K", "1KK", "99999999999T", "1e30", "nan", "inf", "1.5.5G", "5x%"],
    "resource": ["cpu", "", "Memory", "io,memory"],
    "nonempty": [""],
}
GOOD_BY_TYPE = {
    "int": ["0", "5", "-3", "2147483647", "-2147483648", "007"],
    "uint": ["0", "15", "2147483647"],
    "pctl": ["0", "80", "99"],
    "int64": ["0", "1048576", "-5", "9223372036854775807", "-9223372036854775808", "4294967296"],
    "ms": ["0", "10", "20000"],
    "float": ["0", "0.85", "1.25", "-2.5", "1e-3", "3.", ".5"],
    "double": ["0.1", "1", "1e3", "123456789.125"],
    "bool": ["true", "false", "True", "False", "1", "0"],
    "sizepct": ["0", "5", "10%", "100%", "0%", "1K", "1.5G", "1M 512K", "1.5M 32K 512", "2T", "8388607T", "100"],
    "cgroup": ["a", "a/b,c/*", "/", "system.slice/*"],
    "string": ["x"], "nonempty": ["foo.service"], "resource": ["io", "memory"],
}
DC_BY_TYPE = {"int": [" 5", "+5"], "float": [" 1.5", "+0.5", "1e-50"], "sizepct": ["-5", " 5", "+1G", "1e3", "1e2K"], "int64": [" 7", "+7"], "double": ["1e-320"]}


def gen_plugin_cases(rng, n):
    names = sorted(C.PLUGINS)
    out = []
    for i in range(n):
        name = rng.choice(names)
        table, req = C.PLUGINS[name]
        args = {}
        for k in req:
            args[k] = rng.choice(GOOD_BY_TYPE[table[k]])
        if name == "memory_above" and rng.random() < 0.9:
            args[rng.choice(["threshold", "threshold_anon"])] = rng.choice(GOOD_BY_TYPE["sizepct"])
        for k in rng.sample(sorted(table), rng.randint(0, min(4, len(table)))):
            args.setdefault(k, rng.choice(GOOD_BY_TYPE[table[k]]))
        mode = rng.random()
        what = "valid"
        if mode < 0.35 and args:
            k = rng.choice(sorted(args))
            pool = BAD_BY_TYPE.get(table[k])
            if pool:
                args[k] = rng.choice(pool)
                what = "bad-value:%s:%s" % (table[k], args[k])
        elif mode < 0.45 and req:
            k = rng.choice(req)
            del args[k]
            what = "missing:" + k
        elif mode < 0.55:
            k = rng.choice(["bogus", "Cgroup", "threshold ", "durations", "dry_run", "id"])
            if k not in table:
                args[k] = "1"
                what = "unknown:" + k
        elif mode < 0.62 and args:
            k = rng.choice(sorted(args))
            pool = DC_BY_TYPE.get(table[k])
            if pool:
                args[k] = rng.choice(pool)
                what = "dontcare-form"
        as_action = name.startswith("kill") or name in ("senpai", "systemd_restart") or rng.random() < 0.2
        plug = {"name": name, "args": args}
        rs = {"name": "r", "detectors": [["g", W.det("d0")] + ([] if as_action else [plug])], "actions": ([plug] if as_action else []) + [W.act("a0")]}
        out.append((json.dumps({"rulesets": [rs]}), {"plugin": name, "args": args, "what": what, "kind": "plugin"}))
    return out


def gen_structure_cases(rng, n):
    """ruleset-level validity + honoured-exactly for scripted plugins"""
    out = []
    for i in range(n):
        ng = rng.randint(1, 3)
        groups = [["g%d" % g] + [W.det("d%d_%d" % (g, k), x=str(rng.randint(0, 9))) for k in range(rng.randint(1, 3))] for g in range(ng)]
        # argument values written as JSON numbers / booleans (not strings) must reach the plugin unchanged
        for g in groups:
            for d in g[1:]:
                if rng.random() < 0.5:
                    d["args"]["num"] = rng.choice([0.0123456789, 1234567.5, 1.0000005, 0.1, 1e-7, 123456789.125, 5, -5, 0,
                                                   2**31, 2**53 + 1, 2**63 - 1, -2**63, 1.5e300, True, False, 3.0])
        acts = [W.act("a%d" % k, **({"post_action_delay": rng.choice([0, 3])} if rng.random() < 0.3 else {})) for k in range(rng.randint(1, 3))]
        rs = {"name": "r", "detectors": groups, "actions": acts}
        hooks = [{"name": "v_hook", "args": {"id": "h%d" % k, "cgroup": rng.choice(["/", "a/*", "x,y"])}} for k in range(rng.randint(0, 2))]
        valid = True
        what = "valid"
        m = rng.random()
        if m < 0.08:
            rs["name"] = ""
            valid, what = False, "ruleset without name"
        elif m < 0.16:
            groups[0][0] = ""
            valid, what = False, "group without name"
        elif m < 0.24:
            groups[rng.randrange(ng)][1]["name"] = rng.choice(["", "no_such_plugin", "V_DET"])
            valid, what = False, "missing/unknown detector plugin"
        elif m < 0.30:
            acts[0]["name"] = "no_such_action"
            valid, what = False, "unknown action plugin"
        elif m < 0.36:
            rs[rng.choice(["detectors", "actions"])] = []
            valid, what = False, "no detectors / no actions"
        elif m < 0.40:
            groups[0][:] = groups[0][:1]
            valid, what = False, "group without detectors"
        elif m < 0.50:
            sl = rng.choice(["engine", "plugins", "engine,plugins", " engine , plugins ", "engines", "engine;plugins", "all"])
            rs["silence-logs"] = sl
            ok = all(x.strip() in ("engine", "plugins") for x in sl.strip().split(",") if x.strip()) and sl.strip() != ""
            valid, what = ok, "silence-logs=%r" % sl
        elif m < 0.66:
            key = rng.choice(["post_action_delay", "prekill_hook_timeout"])
            val = rng.choice(["0", "5", "15", "-1", "abc", "5x", "1.5", "99999999999", " 7", "", "2147483647"])
            rs[key] = val
            st, _ = C.read_int(val, 0, C.INT_MAX) if val != "" else (C.VALID, None)
            valid = None if st == C.DONTCARE else st == C.VALID
            what = "%s=%r" % (key, val)
        elif m < 0.72 and hooks:
            hooks[0]["name"] = "no_such_hook"
            valid, what = False, "unknown prekill hook"
        elif m < 0.76:
            acts[-1]["args"]["init_fail"] = "1"
            valid, what = False, "plugin init() fails"
        cfg = {"rulesets": [rs]}
        if hooks:
            cfg["prekill_hooks"] = hooks
        out.append((json.dumps(cfg), {"what": what, "valid": valid, "kind": "structure", "cfg": cfg}))
    return out


def judge_validity(v, tier, seed):
    rng = random.Random(seed * 13 + 121)
    quick = tier != "thorough"
    docs = gen_plugin_cases(rng, 700 if quick else 14000) + gen_structure_cases(rng, 300 if quick else 6000)
    ans = pure.run_queries([{"q": "config", "text": d} for d, _ in docs])
    acc = rej = 0
    for (doc, meta), (a, crash) in zip(docs, ans):
        if crash or a is None:
            ck = pure.crash_key(crash) if crash else ("no-answer", "", "")
            v.bad("compile-" + ck[0], ck[1], "config %s\n%s" % (meta, ck[2]))
            continue
        if a.get("parse") == "exception" or a.get("compile") == "exception" or "uncaught" in a:
            v.bad("exception-from-load", "%s @ %s" % (a.get("compile_exc") or a.get("parse_exc") or a.get("uncaught"), a.get("throw_site")),
                  "config %s: %s" % (meta, {k: a.get(k) for k in ("parse", "parse_exc", "compile", "compile_exc", "compile_what")}))
            continue
        accepted = a.get("compile") == "ok"
        acc += accepted
        rej += not accepted
        if meta["kind"] == "plugin":
            st, why = C.plugin_validity(meta["plugin"], meta["args"])
            if st == C.DONTCARE:
                v.count("dontcare_validity")
                continue
            if accepted != (st == C.VALID):
                v.bad("accepted-invalid" if accepted else "rejected-valid", meta["what"].split(":")[0] + ":" + (meta["what"].split(":")[1] if ":" in meta["what"] else ""),
                      "plugin %s args %s: %s, reference says %s (%s)" % (meta["plugin"], meta["args"], "accepted" if accepted else "rejected", st, why))
        else:
            if meta["valid"] is None:
                v.count("dontcare_validity")
            elif accepted != meta["valid"]:
                v.bad("accepted-invalid" if accepted else "rejected-valid", meta["what"].split("=")[0],
                      "%s: %s; config %s" % (meta["what"], "accepted" if accepted else "rejected", doc[:400]))
            if accepted:
                cfg = meta["cfg"]
                want = []
                for r in cfg["rulesets"]:
                    for g in r["detectors"]:
                        want += [("det", d["args"]["id"], d["args"]) for d in g[1:]]
                    want += [("act", x["args"]["id"], x["args"]) for x in r["actions"]]
                want += [("hook", h["args"]["id"], h["args"]) for h in cfg.get("prekill_hooks", [])]
                got = [(i["kind"], i["id"], i["args"]) for i in a["inits"]]

                def same_args(g_, w_):
                    if set(g_) != set(w_):
                        return False
                    for k_, wv in w_.items():
                        gv = g_[k_]
                        if isinstance(wv, bool):
                            ok_ = gv == ("true" if wv else "false")
                        elif isinstance(wv, int):
                            ok_ = gv == str(wv)
                        elif isinstance(wv, float):
                            try:
                                ok_ = float(gv) == wv
                            except ValueError:
                                ok_ = False
                        else:
                            ok_ = gv == wv
                        if not ok_:
                            return False
                    return True

                if len(got) != len(want) or any(g_[:2] != w_[:2] or not same_args(g_[2], w_[2]) for g_, w_ in zip(got, want)):
                    v.bad("not-honoured-exactly", "", "plugins initialised %s, configuration says %s" % (got, want))
    v.count("config_accepted", acc)
    v.count("config_rejected", rej)
    return acc > 0 and rej > 0, len(docs)


CORPUS = ["1.5G 32K", "1.5M 32K 512", "1K", "1M", "1G", "1T", "512", "0", "10%", "100%", "0%", "101%", "-1%", "50 %", "5.5%", "5", "100", "-5", "+5",
          "1e30", "1e30K", "nan", "inf", "-inf", "NaN", "infinity", "99999999999T", "8388608T", "8388607T", "9223372036854775807", "9223372036854775808",
          "18446744073709551616", "2147483647", "2147483648", "4294967295", "4294967296", "9007199254740992", "9007199254740993", "9007199254740993K",
          "", " ", "K", "KK", "1KK", "1K1", "1 K", "1.K", ".5K", "1.5.5K", "abc", "1x", "0x10", "0x10K", "1e3", "1E3K", "1,5G", "1G 1G 1G", "8191P",
          "17179869184G", "3.999999999999999999G", "1e-5K", "-1K", "--1K", "+-1K", "1K-", "\t1M\n", "1m", "1g 1k", "007", "00K"]


def rnd_numstr(rng):
    parts = []
    for _ in range(rng.randint(1, 3)):
        m = rng.random()
        num = str(rng.choice([0, 1, 5, 32, 512, 1023, 1024, 65536, 2**31 - 1, 2**31, 2**32, 2**53 + 1, 2**63 - 1, 2**63, 10**20])) if m < 0.6 else "%.3f" % rng.uniform(0, 5000)
        if rng.random() < 0.1:
            num = rng.choice(["1e5", "1e30", "nan", "inf", ".", "-", ""])
        parts.append(num + rng.choice(["", "K", "M", "G", "T", "k", "m", "g", "t", "%", "x", " "]))
    return rng.choice(["", "", "", "-", "+", " "]) + rng.choice(["", " "]).join(parts)


def judge_numbers(v, tier, seed):
    rng = random.Random(seed * 13 + 122)
    quick = tier != "thorough"
    strs = list(CORPUS) + [rnd_numstr(rng) for _ in range(3000 if quick else 200000)]
    qs = []
    for s in strs:
        qs.append({"q": "size", "s": s})
        qs.append({"q": "sizepct", "s": s, "total": rng.choice([16 << 30, (1 << 31) + 7, 1 << 40, 0, (1 << 50)])})
    vals = []
    for t in ("int", "uint", "int64", "ms", "float", "double", "bool", "resource"):
        ref_t = t
        pool = GOOD_BY_TYPE.get(ref_t, []) + BAD_BY_TYPE.get(ref_t, []) + DC_BY_TYPE.get(ref_t, []) + ["2147483648", "-2147483649", "9223372036854775807",
                                                                                                      "9223372036854775808", "18446744073709551615", "1e400", "12 34", "0x1F", "1_000"]
        for s in pool:
            vals.append({"q": "value", "type": t, "s": s})
        for _ in range(100 if quick else 3000):
            vals.append({"q": "value", "type": t, "s": rnd_numstr(rng) if rng.random() < 0.5 else str(rng.choice([-1, 1]) * rng.randint(0, 2**64))})
    qs += vals
    ans = pure.run_queries(qs)
    acc = rej = 0
    for q, (a, crash) in zip(qs, ans):
        if crash or a is None:
            ck = pure.crash_key(crash) if crash else ("no-answer", "", "")
            v.bad("number-" + ck[0], ck[1], "query %s\n%s" % (q, ck[2]))
            continue
        if "uncaught" in a:
            v.bad("number-uncaught-exception", "%s:%s" % (q["q"], a["uncaught"]), "query %s -> %s" % (q, a))
            continue
        if q["q"] in ("size", "sizepct"):
            st, want = C.read_size(q["s"]) if q["q"] == "size" else C.read_size_or_percent(q["s"], q["total"])
            accepted = a["rc"] == 0
            pass
        else:
            tname = q["type"]
            st, want = C.T[tname](q["s"])
            accepted = a["ok"]
        acc += accepted
        rej += not accepted
        if st == C.DONTCARE:
            v.count("dontcare_numbers")
            continue
        if accepted and st == C.INVALID:
            v.bad("number-accepted-invalid", q["q"] + ":" + q.get("type", ""), "%s(%r) accepted with value %r; it has no valid reading (overflow, non-finite or malformed)" % (q["q"] + ":" + q.get("type", ""), q["s"], a.get("v")))
        elif not accepted and st == C.VALID:
            v.bad("number-rejected-valid", q["q"] + ":" + q.get("type", ""), "%s(%r) rejected; exact value %s" % (q["q"] + ":" + q.get("type", ""), q["s"], want))
        elif accepted and st == C.VALID and want is not None:
            got = a["v"]
            if isinstance(want, F):
                if q["q"] == "value" and q["type"] in ("float", "double"):
                    tol = abs(want) * (2.0 ** -23 if q["type"] == "float" else 2.0 ** -52)
                    okv = abs(F(got) - want) <= tol
                elif want.denominator == 1:
                    okv = F(got) == want
                else:  # fractional byte count: floor/round and decimal->binary rounding are don't-care
                    okv = abs(F(got) - want) <= 2 + abs(want) * F(1, 2**50)
            elif isinstance(want, bool):
                okv = got == want
            else:
                okv = got == want
            if not okv:
                v.bad("number-wrong-value", q["q"] + ":" + q.get("type", ""), "%s(%r) = %r, exact value %s" % (q["q"] + ":" + q.get("type", ""), q["s"], got, want))
    v.count("numbers_accepted", acc)
    v.count("numbers_rejected", rej)
    return acc > 0 and rej > 0, len(qs)


_LTOK = re.compile(r"(\d+\.?\d*|\.\d+)(e[+-]?\d+)?([kmgt]?)")


def _liberal_size(s):
    """number(+exponent)+optional unit components, linear-time tokenisation"""
    t = re.sub(r"\s+", "", s).lower()
    if t[:1] in ("+", "-"):
        t = t[1:]
    if not t:
        return False
    pos = 0
    while pos < len(t):
        m = _LTOK.match(t, pos)
        if not m or m.end() == pos:
            return False
        pos = m.end()
    return True


def _overflows(s):
    try:
        t = re.sub(r"\s+", "", s).lower().lstrip("+-")
        tot = F(0)
        for m in re.finditer(r"((\d+\.?\d*|\.\d+)(e[+-]?\d+)?)([kmgt]?)", t):
            if m.group(3) and len(m.group(3)) > 5:
                if "-" in m.group(3):
                    continue
                return True
            tot += F(m.group(1)) * C.UNITS.get(m.group(4), 1)
        return tot > C.I64_MAX
    except Exception:
        return True


# ---------------------------------------------------------------- (e) argument values that are not scalars
JUNK = [[], [1], {}, {"a": 1}, None, ["true"], [[]]]


def arg_sites(doc, path=()):
    """paths of every plugin `args` object in a config document"""
    if isinstance(doc, dict):
        if isinstance(doc.get("args"), dict) and "name" in doc:
            yield path + ("args",)
        for k, val in doc.items():
            yield from arg_sites(val, path + (k,))
    elif isinstance(doc, list):
        for i, val in enumerate(doc):
            yield from arg_sites(val, path + (i,))


def judge_shapes(v, tier, seed):
    """a JSON array / object / null as the value of a plugin argument has no valid reading in any argument type: the document has
    to be rejected - at the CLI and as a drop-in - and must never be accepted with that argument (or the ones after it) dropped"""
    docs = []
    for site in arg_sites(SEED_CLI):
        args = get_at(SEED_CLI, site)
        for k in sorted(args):
            for j in JUNK:
                d = copy.deepcopy(SEED_CLI)
                get_at(d, site)[k] = j
                docs.append((json.dumps(d), "%s.%s <- %s" % ("/".join(map(str, site)), k, json.dumps(j))))
        for j in JUNK[:4]:
            # an extra junk-valued argument in front of / behind the valid ones (names sort first / last)
            for extra in ("aaa_extra", "zzz_extra"):
                d = copy.deepcopy(SEED_CLI)
                get_at(d, site)[extra] = j
                docs.append((json.dumps(d), "%s.%s <- %s" % ("/".join(map(str, site)), extra, json.dumps(j))))
    # the junk hides a later argument that is itself invalid
    d = copy.deepcopy(SEED_CLI)
    d["rulesets"][1]["detectors"][0][1]["args"] = {"cgroup": "w", "debug": [1], "negate": "garbage"}
    docs.append((json.dumps(d), "exists: debug=[1] in front of negate=garbage"))
    d = copy.deepcopy(SEED_CLI)
    d["rulesets"][1]["detectors"][0][1]["args"] = {"cgroup": "w", "debug": {}, "no_such_argument": "1"}
    docs.append((json.dumps(d), "exists: debug={} in front of an undeclared argument"))
    res = run_cli([x for x, _ in docs])
    n = 0
    for (doc, meta), (rc, err) in zip(docs, res):
        n += 1
        if rc == 0:
            v.bad("non-scalar-argument-accepted", "cli", "oomd --check-config accepts a config in which %s" % meta)
        elif rc != 1:
            ck = cli_crash_key(rc, err)
            v.bad(ck[0], ck[1], "oomd --check-config on %s exits %s\n%s" % (meta, rc, ck[2]))
    # run-time drop-in path, scripted plugins: refused, or (never) applied with exactly the given arguments
    ddocs = []
    for site in arg_sites(SEED_DROPIN):
        for j in JUNK:
            for extra in ("aaa_extra", "zzz_extra", "id"):
                d = copy.deepcopy(SEED_DROPIN)
                get_at(d, site)[extra] = j
                ddocs.append((json.dumps(d), "%s.%s <- %s" % ("/".join(map(str, site)), extra, json.dumps(j))))
    qs = [{"q": "dropin_load", "base": json.dumps(SEED_BASE), "dropin": x} for x, _ in ddocs]
    ans = pure.run_queries(qs)
    for (doc, meta), (a, crash) in zip(ddocs, ans):
        n += 1
        if crash or a is None or "uncaught" in (a or {}):
            continue  # judged by the totality part
        if a.get("schedule") is True and a.get("apply") == ["t.json:ok"]:
            v.bad("non-scalar-argument-accepted", "drop-in", "a drop-in in which %s was applied" % meta)
    v.count("non_scalar_argument_documents", n)
    return n > 0, n


def get_at(doc, path):
    for k in path:
        doc = doc[k]
    return doc


# ---------------------------------------------------------------- (d) effective values across several loads in one process
EFF_SPECS = ["10%", "50%", "1%", "99%", "37%", "100%", "1536M", "1.5G", "1.5G 32K", "2048", "32K", "3G 1M 7K", "1", "0.5G"]


def eff_threshold(spec, total):
    st, val = C.read_size_or_percent(spec, total)
    assert st == C.VALID, (spec, st)
    return val


def eff_cases(rng, n, seed):
    """memory_above with size / percent thresholds is loaded several times in one process (base config at start-up, drop-ins
    later) while /proc/meminfo changes in between; every load must evaluate `N%` against the MemTotal of its own load time and
    sizes exactly, which is observed end-to-end: usage is placed one byte around every threshold and the action behind the
    detector either runs or not."""
    out = []
    for i in range(n):
        totals_kb = [rng.choice([16 << 20, (2 << 20) + 3, 123456789, 8 << 20, (1 << 21) - 1, 4000001]) for _ in range(3)]
        while totals_kb[1] == totals_kb[0]:
            totals_kb[1] = rng.choice([16 << 20, 8 << 20, 123456789, 4000001])
        anon = rng.random() < 0.3
        arg = "threshold_anon" if anon else "threshold"
        loc = rng.random() < 0.5

        def det(spec):
            a = {"cgroup": "wl/a", arg: spec, "duration": "0"}
            if loc:
                a["meminfo_location"] = "/proc/meminfo"
            if anon and rng.random() < 0.5:
                a["threshold"] = "1"  # ignored when threshold_anon is given
            return {"name": "memory_above", "args": a}

        loads = [{"tag": None, "tick": -1, "spec": rng.choice(EFF_SPECS), "total": totals_kb[0] * 1024, "act": "base"}]
        nticks = rng.randint(10, 14)
        t1 = rng.randint(1, 3)
        t2 = rng.randint(t1 + 2, t1 + 5)
        loads.append({"tag": "e1.json", "tick": t1, "spec": rng.choice(EFF_SPECS[:6] if i % 2 else EFF_SPECS), "total": totals_kb[1] * 1024, "act": "d1"})
        loads.append({"tag": rng.choice(["e1.json", "e2.json"]), "tick": t2, "spec": rng.choice(EFF_SPECS), "total": totals_kb[2] * 1024, "act": "d2"})
        for l in loads:
            l["T"] = eff_threshold(l["spec"], l["total"])
        cfg = {"rulesets": [{"name": "r0", "drop-in": {"detectors": True, "actions": True}, "post_action_delay": "0",
                             "detectors": [["g", det(loads[0]["spec"])]], "actions": [W.act("base")]}]}
        points = []
        for l in loads:
            t = l["T"]
            lo, hi = int(t), -int(-t)
            points += [lo - 1, hi + 1, lo, max(0, lo - 4096), hi + 4096]
        ticks = []
        usage = []
        for t in range(nticks):
            u = max(0, rng.choice(points))
            usage.append(u)
            st = {"anon": u} if anon else {"anon": rng.randint(0, u) if u else 0}
            ops = [{"op": "write", "cg": "wl/a", "file": "memory.current", "text": "%d\n" % (rng.randint(0, 1 << 36) if anon else u)},
                   {"op": "write", "cg": "wl/a", "file": "memory.stat", "text": W.memstat(st)}]
            tk = {"step_ns": 10**9, "ops": ops}
            for l in loads[1:]:
                if l["tick"] == t:
                    ops.append({"op": "write", "proc": "meminfo", "text": W.meminfo(mem_total_kb=l["total"] // 1024)})
                    tk["dropins"] = [{"op": "add", "tag": l["tag"], "config": {"rulesets": [
                        {"name": "r0", "detectors": [["g", det(l["spec"])]], "actions": [W.act(l["act"])]}]}}]
            ticks.append(tk)
        cgs = {"/": W.root_cgroup(), "wl/a": W.cgroup(current=0)}
        scn = {"id": "C12-eff-%d-%d" % (seed, i), "interval": 1, "config": cfg, "cgroups": cgs, "proc": W.proc(mem_total_kb=totals_kb[0]),
               "ticks": ticks, "scripts": {}}
        out.append((scn, loads, usage, anon))
    return out


def judge_effective(v, tier, seed):
    rng = random.Random(seed * 13 + 124)
    cs = eff_cases(rng, 150 if tier != "thorough" else 2500, seed)
    results = core.run_scenarios([c[0] for c in cs], flavor="asan", mode="sim")
    from oracles import engine
    judged = 0
    for (scn, loads, usage, anon), res in zip(cs, results):
        cr = core.classify_crash(res) if res.crashed else core.exception_outcome(res)
        if cr:
            v.bad("effective-crash:" + cr[0], cr[1], cr[2])
            continue
        _, ticks = engine.split_ticks(res.events)
        applied = {(e["tag"]): e["ok"] for e in res.events if e.get("ev") == "dropin_result" and e["op"] == "add"}
        for l in loads[1:]:
            if not applied.get(l["tag"]):
                v.bad("effective-load-refused", "", "drop-in %s with memory_above %s was not applied (%s)" % (l["tag"], l["spec"], applied))
        if len(ticks) != len(usage):
            v.bad("effective-ticks-missing", "", "%d ticks of %d" % (len(ticks), len(usage)))
            continue
        for ti, evs in enumerate(ticks):
            ran = set(e["id"] for e in evs if e.get("ev") == "plugin" and e["m"] == "run" and e["kind"] == "act")
            active = [loads[0]]
            for l in loads[1:]:
                if l["tick"] <= ti:
                    active = [a for a in active if a["tag"] != l["tag"]] + [l]
            for l in active:
                t, u = l["T"], usage[ti]
                if int(t) < u < -int(-t) + 1 and t != int(t):
                    v.count("dontcare_fractional_threshold")
                    continue
                want = u > t
                judged += 1
                if want != (l["act"] in ran):
                    v.bad("effective-threshold", "memory_above:" + ("percent" if l["spec"].endswith("%") else "size"),
                          "%s tick %d: memory_above %s=%r loaded (%s) while MemTotal was %d bytes => threshold %s bytes; %s usage %d => should %s, but the action behind it %s (loads in this process: %s)" % (
                              scn["id"], ti, "threshold_anon" if anon else "threshold", l["spec"], "base config" if l["tag"] is None else "drop-in %s at tick %d" % (l["tag"], l["tick"]),
                              l["total"], t, "anon" if anon else "memory.current", u, "fire" if want else "not fire", "ran" if l["act"] in ran else "did not run",
                              [(x["tag"], x["tick"], x["spec"], x["total"]) for x in loads]))
    v.count("effective_threshold_judgements", judged)
    return judged > 0, judged


def cases(seed, tier):
    for part in ("totality", "validity", "numbers", "effective", "shapes"):
        yield core.Case("C12-" + part, [], {"part": part, "tier": tier, "seed": seed}, driver="custom")


def run_batch(driver, flavor, scns):
    return []


def judge(case, results):
    v = core.Verdict()
    m = case.meta
    fn = {"totality": judge_totality, "validity": judge_validity, "numbers": judge_numbers, "effective": judge_effective, "shapes": judge_shapes}[m["part"]]
    nt, n = fn(v, m["tier"], m["seed"])
    v.count("inputs:" + m["part"], n)
    v.nontrivial = nt
    v.sig = m["part"]
    return v


def coverage_extra(cases_, verdicts, tier):
    tot = sum(n for v in verdicts for k, n in v.stats.items() if k.startswith("inputs:"))
    return {"evaluations": tot, "distinct_nontrivial": tot, "exhaustive": False,
            "node_enumeration": "every node of the three seed documents x 10 replacements in the thorough tier; sampled in quick"}


def sample(case, v):
    return {"part": case.meta["part"], "observed": v.stats}
