"""C05 Post-action delay — pause window on the virtual clock, boundary ticks, plugin override, async completion."""
import random

from vlib import core, world as W
from oracles import engine
from checks import c02

ID = "C05"
LEVEL = "exploration"
FLAVORS = ["asan"]
RULE = ("random rulesets (ruleset delay in {default 15,0,1,2,5}, per-action post_action_delay in {-,0,1,2,3,7}), chains with 0-3 "
        "async pauses and STOPs that spend virtual time inside run(); tick steps drawn from {0,1ns,1s-1ns,1s,1s+1ns,2s,3s,5s,15s} so "
        "ticks land exactly at, 1ns before and 1ns after t+d; per ruleset instance the oracle recomputes pause_until = STOP time + "
        "(action's own delay if it has one else the ruleset's) and requires: no action in [t,t+d), a chain starts at the first tick "
        ">= t+d on which a group fires, detectors/preruns keep running, other rulesets unaffected; plus the same window through the five real kill plugins in dry mode (own and ruleset delays), where the pause is set by the plugin via getInvokingRuleset(), incl. always_continue kills followed by a scripted STOP/CONTINUE with or without its own delay. "
        "non-trivial = >=1 STOP with d>0 followed by >=1 tick blocked by the pause and >=1 later chain start; distinct by config+script+steps hash")
ASSUMPTIONS = c02.ASSUMPTIONS
OWN = {"C05"}

STEPS = [0, 1, 10**9 - 1, 10**9, 10**9, 10**9 + 1, 2 * 10**9, 3 * 10**9, 5 * 10**9, 15 * 10**9]


def cases(seed, tier):
    n = 800 if tier == "quick" else 8000
    rng = random.Random(seed * 1000003 + 5)
    for i in range(n):
        nrs = rng.choice([1, 1, 2])
        rulesets = []
        for k in range(nrs):
            rs = c02.gen_ruleset(rng, "r%d" % k, delays=(None, "0", "1", "2", "5"), act_delay=True)
            rulesets.append(rs)
        nticks = rng.randint(10, 16)
        fire_p = rng.choice([0.6, 0.85, 0.97])
        scripts = c02.gen_scripts(rng, rulesets, nticks, fire_p, async_p=rng.choice([0.0, 0.2, 0.4]), stop_p=0.45)
        # some STOPs spend time inside run()
        for k, seq in scripts.items():
            if ".a" in k:
                scripts[k] = [(x + "+" + str(rng.choice([1, 2]))) if x == "S" and rng.random() < 0.15 else x for x in seq]
        ticks = [{"step_ns": rng.choice(STEPS)} for _ in range(nticks)]
        cid = "C05-%d-%d" % (seed, i)
        extra = None
        if i % 4 == 3:
            # "per matching cgroup, for ruleset-cgroup rulesets": the same window per instance
            cg = {"/": W.root_cgroup()}
            for nm in ("wl/x1", "wl/x2", "wl/y"):
                cg[nm] = W.cgroup()
            rulesets[0]["cgroup"] = "wl/x*"
            for a in rulesets[0]["actions"]:
                for u in ("wl/x1", "wl/x2"):
                    if rng.random() < 0.5:
                        scripts[a["args"]["id"] + "@" + u] = [rng.choice(["C", "S", "S", "A", "S+1"]) for _ in range(nticks * 2)]
            extra = {"cgroups": cg}
        if i % 4 >= 2 and i % 8 < 6:
            # drop-ins for these rulesets come and go (or fail and are rolled back) inside the pause windows
            c02.dropin_noise(rng, rulesets, ticks, p=0.5)
        yield core.Case(cid, [c02.mk_scn(cid, {"rulesets": rulesets}, scripts, ticks, extra)], {"rulesets": nrs, "ticks": nticks})


def real_cases(seed, n):
    """the same clause through the real kill plugins (dry): they call pause_actions() via getInvokingRuleset()"""
    from vlib import killgen as KG
    rng = random.Random(seed * 1000003 + 55)
    for i in range(n):
        plugin = rng.choice(KG.PLUGINS)
        cgs, info, pids = KG.gen_tree(rng, depth=1, fan=3, pidcounts=(1, 2), unpop_p=0.0, pref_p=0.0, oomgroup_p=0.0)
        args = {"cgroup": "wl/*", "dry": "true"}
        if plugin == "kill_by_pressure":
            args["resource"] = "memory"
        if plugin == "kill_by_swap_usage":
            args["threshold"] = "0"
            for r in info:
                cgs[r]["files"]["memory.swap.current"] = "4096\n"
        own = rng.choice([None, None, 0, 1, 2, 4])
        if own is not None:
            args["post_action_delay"] = str(own)
        rdelay = rng.choice([None, "0", "1", "3", "6"])
        extra = {} if rdelay is None else {"post_action_delay": rdelay}
        # always_continue: the kill plugin does not stop the chain, so it is the later STOP (if any) whose delay counts
        always, post_delay, post_script = rng.random() < 0.35, None, None
        if always:
            args["always_continue"] = "true"
            post_script = rng.choice(["S", "S", "C"])
            post_delay = rng.choice([None, None, 0, 1, 3])
        hooks, hspec = None, {}
        if rng.random() < 0.3:
            # "... or prekill-hook waits": the dry kill only completes after its hook took 1-3 more ticks; the pause counts from then
            hooks = [{"name": "v_hook", "args": {"id": "h0", "cgroup": "/"}}]
            hspec = {"h0": [{"polls": rng.choice([1, 1, 2, 3])} for _ in range(12)]}
            extra = dict(extra, prekill_hook_timeout="60")
        cfg = KG.kill_config(plugin, args, extra, hooks=hooks)
        if always and post_delay is not None:
            cfg["rulesets"][0]["actions"][2]["args"]["post_action_delay"] = str(post_delay)
        if rdelay is None:
            cfg["rulesets"][0].pop("post_action_delay", None)
        nticks = rng.randint(10, 16)
        ticks = []
        for t in range(nticks):
            ops = []
            if t > 0 and plugin in ("kill_by_pg_scan", "kill_by_io_cost"):
                for r in info:
                    ops.append({"op": "write", "cg": r, "file": "memory.stat", "text": W.memstat({"pgscan": 1000 * (t + 1) + len(r)})})
                    ops.append({"op": "write", "cg": r, "file": "io.stat", "text": KG.iostat_text(rng, t + 1)})
            ticks.append({"step_ns": rng.choice(STEPS), "ops": ops})
        cid = "C05r-%d-%d" % (seed, i)
        scn = KG.base_scn(cid, cgs, cfg, ticks=ticks, hooks=hspec)
        if always:
            scn["scripts"] = {"post": [post_script] * (nticks + 2)}
        yield core.Case(cid, [scn], {"real": True, "plugin": plugin, "own": own, "ruleset": 15 if rdelay is None else int(rdelay),
                                     "always": always, "post": post_script, "post_delay": post_delay, "hook": bool(hooks)})


_cases_scripted = cases


def cases(seed, tier):
    yield from _cases_scripted(seed, tier)
    yield from real_cases(seed, 300 if tier == "quick" else 2000)


def judge_real(case, results):
    from oracles import killtrace as KT
    from checks.c04 import KMSG
    v = core.Verdict()
    res, scn = results[0], case.scns[0]
    cr = core.classify_crash(res) if res.crashed else core.exception_outcome(res)
    if cr:
        v.bad("crash:" + cr[0], cr[1], cr[2])
        return v
    m = case.meta
    if m.get("always"):
        # the plugin returned CONTINUE; the scripted action after it decides: STOP with its own delay or the ruleset's, or no STOP at all
        d = 0 if m["post"] != "S" else (m["post_delay"] if m["post_delay"] is not None else m["ruleset"]) * 10**9
    else:
        d = (m["own"] if m["own"] is not None else m["ruleset"]) * 10**9
    invs = KT.parse(res.events)
    times = {}
    for e in res.events:
        if e.get("ev") == "tick":
            times[e["i"]] = e["t"]
    pause_until = None
    blocked = starts = 0
    for inv in invs:
        now = times.get(inv.tick)
        started = inv.pre is not None
        if pause_until is not None:
            if now < pause_until and started:
                v.bad("action-in-pause", "real-plugin", "%s (own delay %s, ruleset %s, always_continue+post %s): chain started at tick %d t=%d, pause lasts until %d" % (m["plugin"], m["own"], m["ruleset"], (m.get("always"), m.get("post"), m.get("post_delay")), inv.tick, now, pause_until))
                return v
            if now >= pause_until and not started and not (inv.tick > 0 and invs[inv.tick - 1].ret == "A"):
                v.bad("chain-must-start", "real-plugin", "%s (own delay %s, ruleset %s, always_continue+post %s): detectors fire, pause ended at %d, but no chain at tick %d t=%d" % (m["plugin"], m["own"], m["ruleset"], (m.get("always"), m.get("post"), m.get("post_delay")), pause_until, inv.tick, now))
                return v
            if now < pause_until:
                blocked += 1
        if started:
            starts += 1
        if any(KMSG.match(l) and "(dry)" in l for l in inv.kmsg):
            pause_until = now + d
    v.count("real_plugin_cases")
    if m.get("hook"):
        v.count("real_plugin_cases_with_hook_wait")
    v.count("pause_blocked", blocked)
    v.count("chain_starts", starts)
    v.nontrivial = blocked > 0 and starts > 1
    v.sig = core.scn_hash(scn)
    return v


def judge(case, results):
    if case.meta.get("real"):
        return judge_real(case, results)
    v = c02.judge(case, results, own=OWN)
    s = v.stats
    v.nontrivial = s.get("stops", 0) > 0 and s.get("pause_blocked", 0) > 0 and s.get("chain_starts", 0) > 1
    return v


def sample(case, v):
    if case.meta.get("real"):
        return {"case": case.id, "real_plugin": case.meta, "observed": v.stats}
    return c02.sample(case, v)
