// `vsim sim`: run the real Oomd::run() loop of the real oomd objects against a
// simulated cgroupfs / procfs on /dev/shm, on a virtual monotonic clock, one forked
// child per scenario.  The child writes its event trace; the parent records how the
// child ended (exit status, signal, watchdog) in summary.jsonl.
#include <cxxabi.h>
#include <dirent.h>
#include <errno.h>
#include <fcntl.h>
#include <signal.h>
#include <string.h>
#include <sys/resource.h>
#include <sys/stat.h>
#include <sys/wait.h>
#include <unistd.h>

#include <fstream>
#include <iostream>
#include <sstream>

#include "oomd/Log.h"
#include "oomd/Oomd.h"
#include "oomd/Stats.h"
#include "oomd/config/ConfigCompiler.h"
#include "oomd/config/JsonConfigParser.h"
#include "oomd/dropin/DropInServiceAdaptor.h"
#include "oomd/include/CoreStats.h"
#include "vh.h"

namespace vh {

static void on_fatal_signal(int sig) {
  // flush what we have; then die with the default action so the parent sees the signal
  if (g.trace_fd >= 0 && !g.buf.empty()) {
    ::syscall(1 /*SYS_write*/, g.trace_fd, g.buf.data(), g.buf.size());
    g.buf.clear();
  }
  signal(sig, SIG_DFL);
  raise(sig);
}

static Oomd::IOCostCoeffs coeffs_from(const Json::Value& a) {
  Oomd::IOCostCoeffs c{};
  double* f[6] = {&c.read_iops, &c.readbw, &c.write_iops, &c.writebw, &c.trim_iops, &c.trimbw};
  for (Json::ArrayIndex i = 0; i < 6 && i < a.size(); ++i) {
    *f[i] = a[i].asDouble();
  }
  return c;
}

static std::string demangle(const char* n) {
  int st = 0;
  char* d = abi::__cxa_demangle(n, nullptr, nullptr, &st);
  std::string r = (st == 0 && d) ? d : n;
  free(d);
  return r;
}

void setup_world(const Json::Value& scn, const std::string& tag) {
  g.scn = scn;
  g.root = "/dev/shm/vsim." + std::to_string(getpid()) + tag;
  g.cgroot = g.root + "/cg";
  rmtree(g.root);
  mkdirs(g.cgroot);
  mkdirs(g.root + "/proc/pressure");
  mkdirs(g.root + "/proc/sys/vm");
  mkdirs(g.root + "/run");
  const Json::Value& proc = scn["proc"];
  for (const auto& name : proc.getMemberNames()) {
    if (!proc[name].isNull()) {
      write_file(g.root + "/proc/" + name, proc[name].asString());
    }
  }
  const Json::Value& cgs = scn["cgroups"];
  auto names = cgs.getMemberNames();
  std::sort(names.begin(), names.end());
  for (const auto& rel : names) {
    materialize_cgroup(rel, cgs[rel]);
  }
  if (scn.isMember("plain_files")) {
    for (const auto& pf : scn["plain_files"]) {
      write_file(g.cgroot + "/" + pf.asString(), "x\n");
    }
  }
  g.procroot = g.root + "/proc";
  const Json::Value& k = scn["kill"];
  g.kill_default = k.get("default", "ok").asString();
  if (k.isMember("pids")) {
    for (const auto& p : k["pids"].getMemberNames()) {
      g.kill_result[atol(p.c_str())] = k["pids"][p].asString();
    }
  }
  if (scn.isMember("linger")) {
    for (const auto& p : scn["linger"].getMemberNames()) {
      g.linger[atol(p.c_str())] = scn["linger"][p].asInt();
    }
  }
  g.xattr_fail = scn.get("xattr_fail", "").asString();
  g.dtype_unknown = scn.get("dtype_unknown", false).asBool();
  g.vanish_after_kill = scn.get("vanish_after_kill", false).asBool();
  g.record_opens = scn.get("record_opens", false).asBool();
  if (scn.isMember("file_faults")) {
    for (const auto& f : scn["file_faults"]) {
      FileFault ff;
      if (f.isMember("proc")) {
        ff.path = g.procroot + "/" + f["proc"].asString();
      } else {
        // without "file": the cgroup directory itself
        ff.path = cg_abs(f["cg"].asString()) + (f.isMember("file") ? "/" + f["file"].asString() : "");
      }
      ff.mode = f["mode"].asString();
      ff.from_tick = f.get("from_tick", 0).asInt();
      ff.to_tick = f.get("to_tick", 1 << 30).asInt();
      g.file_faults.push_back(ff);
    }
  }
  if (scn.isMember("access_faults")) {
    for (const auto& f : scn["access_faults"]) {
      AccessFault af;
      af.tick = f["tick"].asInt();
      af.k = f["k"].asInt();
      af.ops = f["ops"];
      g.access_faults.push_back(af);
    }
  }
  auto errno_of = [](const std::string& n) {
    return n == "EBUSY" ? EBUSY : n == "EINTR" ? EINTR : n == "ENOSPC" ? ENOSPC : n == "EIO" ? EIO : n == "EACCES" ? EACCES
        : n == "ENODEV" ? ENODEV : n == "EINVAL" ? EINVAL : n == "ENOTSUP" ? ENOTSUP : n == "EAGAIN" ? EAGAIN : EIO;
  };
  if (scn.isMember("write_faults")) {
    for (const auto& f : scn["write_faults"]) {
      Sim::WriteFault wf;
      wf.file = f["file"].asString();
      wf.err = errno_of(f.get("errno", "EIO").asString());
      wf.remaining = f.get("count", -1).asInt();
      wf.shortw = f.get("short", false).asBool();
      wf.block = f.get("block", false).asBool();
      g.write_faults.push_back(wf);
    }
  }
  if (scn.isMember("xattr_get_errno")) {
    g.xattr_get_errno = errno_of(scn["xattr_get_errno"].asString());
  }
  g.nticks = scn["ticks"].size();
}

static void end_event(const std::string& outcome, const std::string& what, const std::string& type) {
  Json::Value e;
  e["ev"] = "end";
  e["outcome"] = outcome;
  if (!what.empty()) {
    e["what"] = what;
  }
  if (!type.empty()) {
    e["type"] = type;
  }
  if (outcome != "ok") {
    e["throw_site"] = g.last_throw;
  }
  Json::Value st(Json::objectValue);
  for (const auto& kv : Oomd::getStats()) {
    st[kv.first] = kv.second;
  }
  e["stats"] = st;
  std::string km = read_file(g.root + "/kmsg");
  Json::Value lines(Json::arrayValue);
  std::istringstream is(km);
  std::string line;
  while (std::getline(is, line)) {
    lines.append(line);
  }
  e["kmsg"] = lines;
  e["accesses_last_tick"] = g.access_k;
  ev(e);
  flush_trace();
}

// drop-in requests scripted per tick: {"dropins":[{"op":"add","tag":T,"config":{...}} | {"op":"remove","tag":T}]}. They go through
// the real DropInServiceAdaptor (schedule* + updateDropIns) at the point of the main loop where Oomd::run() calls updateDropIns().
class SimAdaptor : public Oomd::DropInServiceAdaptor {
 public:
  using Oomd::DropInServiceAdaptor::DropInServiceAdaptor;
  using Oomd::DropInServiceAdaptor::scheduleDropInAdd;
  using Oomd::DropInServiceAdaptor::scheduleDropInRemove;

 protected:
  void tick() override {}
  void handleDropInAddResult(const std::string& tag, bool ok) override {
    Json::Value e;
    e["ev"] = "dropin_result";
    e["op"] = "add";
    e["tag"] = tag;
    e["ok"] = ok;
    ev(e);
  }
  void handleDropInRemoveResult(const std::string& tag, bool ok) override {
    Json::Value e;
    e["ev"] = "dropin_result";
    e["op"] = "remove";
    e["tag"] = tag;
    e["ok"] = ok;
    ev(e);
  }
};
static SimAdaptor* g_adaptor = nullptr;

static void sim_tick_hook(int, const Json::Value& tk) {
  if (!g_adaptor || !tk.isMember("dropins")) {
    return;
  }
  for (const auto& op : tk["dropins"]) {
    Json::Value e;
    e["ev"] = "dropin";
    e["op"] = op["op"];
    e["tag"] = op["tag"];
    if (op["op"].asString() == "add") {
      std::unique_ptr<Oomd::Config2::IR::Root> dr;
      try {
        Oomd::Config2::JsonConfigParser parser;
        dr = parser.parse(jstr(op["config"]));
      } catch (const std::exception&) {
      }
      e["parsed"] = dr != nullptr;
      e["sched"] = dr ? g_adaptor->scheduleDropInAdd(op["tag"].asString(), *dr) : false;
    } else {
      g_adaptor->scheduleDropInRemove(op["tag"].asString());
    }
    ev(e);
  }
  g_adaptor->updateDropIns();
}

[[noreturn]] static void child_main(const Json::Value& scn, const std::string& outdir, int idx) {
  std::string base = outdir + "/" + std::to_string(idx);
  {
    int efd = ::open((base + ".err").c_str(), O_WRONLY | O_CREAT | O_TRUNC, 0644);
    if (efd >= 0) {
      dup2(efd, 2);
      close(efd);
    }
  }
  g.trace_path = base + ".trace";
  g.trace_fd = ::open(g.trace_path.c_str(), O_WRONLY | O_CREAT | O_TRUNC | O_CLOEXEC, 0644);
#if !defined(__SANITIZE_ADDRESS__)
  signal(SIGABRT, on_fatal_signal);
#endif
  signal(SIGSEGV, on_fatal_signal);
  signal(SIGBUS, on_fatal_signal);
  signal(SIGFPE, on_fatal_signal);
  signal(SIGILL, on_fatal_signal);
  signal(SIGPIPE, SIG_DFL);
  std::set_terminate([] {
    // an exception that nobody catches (e.g. thrown on a helper thread)
    std::string what = "?", type = "?";
    if (auto ep = std::current_exception()) {
      try {
        std::rethrow_exception(ep);
      } catch (const std::exception& e) {
        what = e.what();
        type = demangle(typeid(e).name());
      } catch (...) {
      }
    }
    Json::Value e;
    e["ev"] = "terminate";
    e["throw_site"] = g.last_throw;
    e["what"] = what;
    e["type"] = type;
    ev(e);
    flush_trace();
    abort();
  });

  setup_world(scn, "");
  setenv("INLINE_LOGGING", "1", 1);
  if (!Oomd::Log::init(g.root + "/kmsg")) {
    _exit(97);
  }
  bool stats_ok = Oomd::Stats::init(g.root + "/run/stats.sock");
  if (stats_ok) {
    for (const char* key : Oomd::CoreStats::kAllKeys) {
      Oomd::setStat(key, 0);
    }
  }
  g.vclock = scn.get("vclock", true).asBool();

  std::string cfg_text = scn.isMember("config_text") ? scn["config_text"].asString() : jstr(scn["config"]);
  std::unique_ptr<Oomd::Config2::IR::Root> ir;
  std::unique_ptr<Oomd::Engine::Engine> engine;
  try {
    Oomd::Config2::JsonConfigParser parser;
    ir = parser.parse(cfg_text);
    if (ir) {
      Oomd::PluginConstructionContext cc(g.cgroot);
      engine = Oomd::Config2::compile(*ir, cc);
    }
  } catch (const std::exception& e) {
    end_event("config_exception", e.what(), demangle(typeid(e).name()));
    _exit(0);
  }
  if (!engine) {
    end_event("compile_failed", "", "");
    _exit(0);
  }
  std::unordered_map<std::string, Oomd::DeviceType> io_devs;
  if (scn.isMember("io_devs")) {
    for (const auto& d : scn["io_devs"].getMemberNames()) {
      io_devs[d] = scn["io_devs"][d].asString() == "hdd" ? Oomd::DeviceType::HDD : Oomd::DeviceType::SSD;
    }
  }
  Oomd::IOCostCoeffs hdd = coeffs_from(scn["hdd_coeffs"]);
  Oomd::IOCostCoeffs ssd = coeffs_from(scn["ssd_coeffs"]);
  int interval = scn.get("interval", 1).asInt();
  sigset_t mask;
  sigemptyset(&mask);
  sigaddset(&mask, SIGINT);
  sigaddset(&mask, SIGTERM);

  std::string outcome = "ok", what, type;
  {
    // Oomd keeps both alive for its whole life; the adaptor holds references, as FsDropInService does
    static SimAdaptor adaptor(g.cgroot, *ir, *engine);
    g_adaptor = &adaptor;
    g_tick_hook = sim_tick_hook;
    Oomd::Oomd oomd(std::move(ir), std::move(engine), interval, g.cgroot, "", io_devs, hdd, ssd);
    Json::Value e;
    e["ev"] = "armed";
    ev(e);
    g.armed = true;
    try {
      oomd.run(&mask);
    } catch (const std::exception& ex) {
      outcome = "exception";
      what = ex.what();
      type = demangle(typeid(ex).name());
    } catch (...) {
      outcome = "exception";
      what = "non-std exception";
      type = "?";
    }
    g.armed = false;
    end_event(outcome, what, type);
    // skip every destructor on purpose (~Stats can block; plugin destructors would log)
    {
      Bypass b;
      rmtree(g.root);
    }
    _exit(0);
  }
}

int drv_sim(int argc, char** argv) {
  // vsim sim <scenarios.jsonl> <outdir> [start end] [--timeout S]
  if (argc < 2) {
    fprintf(stderr, "usage: vsim sim <scenarios.jsonl> <outdir> [start end]\n");
    return 2;
  }
  std::string file = argv[0], outdir = argv[1];
  long start = 0, end = 1L << 60;
  int timeout_s = 60;
  if (argc >= 4) {
    start = atol(argv[2]);
    end = atol(argv[3]);
  }
  if (const char* t = getenv("VSIM_TIMEOUT")) {
    timeout_s = atoi(t);
  }
  mkdirs(outdir);
  std::ifstream in(file);
  if (!in.is_open()) {
    fprintf(stderr, "cannot open %s\n", file.c_str());
    return 2;
  }
  std::string sumpath = outdir + "/summary." + std::to_string(start) + ".jsonl";
  FILE* sum = fopen(sumpath.c_str(), "w");
  std::string line;
  long idx = -1;
  Json::CharReaderBuilder rb;
  while (std::getline(in, line)) {
    ++idx;
    if (idx < start || idx >= end || line.empty()) {
      continue;
    }
    Json::Value scn;
    std::string errs;
    std::istringstream is(line);
    if (!Json::parseFromStream(rb, is, &scn, &errs)) {
      fprintf(stderr, "bad scenario json at line %ld: %s\n", idx, errs.c_str());
      return 2;
    }
    fflush(nullptr);
    pid_t pid = fork();
    if (pid == 0) {
      fclose(sum);
      child_main(scn, outdir, (int)idx);
    }
    int status = 0;
    bool timed_out = false;
    int waited_ms = 0;
    while (true) {
      pid_t r = waitpid(pid, &status, WNOHANG);
      if (r == pid) {
        break;
      }
      usleep(2000);
      waited_ms += 2;
      if (waited_ms > timeout_s * 1000) {
        timed_out = true;
        kill(pid, SIGKILL);
        waitpid(pid, &status, 0);
        break;
      }
    }
    Json::Value s;
    s["idx"] = (Json::Int64)idx;
    s["id"] = scn.get("id", "").asString();
    s["timeout"] = timed_out;
    s["exit"] = WIFEXITED(status) ? WEXITSTATUS(status) : -1;
    s["signal"] = WIFSIGNALED(status) ? WTERMSIG(status) : 0;
    s["ms"] = waited_ms;
    fprintf(sum, "%s\n", jstr(s).c_str());
    // clean scratch if the child died before removing it
    rmtree("/dev/shm/vsim." + std::to_string(pid));
  }
  fclose(sum);
  return 0;
}

VH_DRIVER(sim, drv_sim);

} // namespace vh

#if defined(__SANITIZE_ADDRESS__)
extern "C" void __asan_on_error() {
  if (getenv("VSIM_NO_ONERROR")) return;
  vh::flush_trace();
}
#endif
