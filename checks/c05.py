"""C05 Post-action delay — pause window on the virtual clock, boundary ticks, plugin override, async completion."""
import random

from vlib import core, world as W
from oracles import engine
from checks import c02

ID = "C05"
LEVEL = "exploration"
FLAVORS = ["asan"]
RULE = ("random rulesets (ruleset delay in {default 15,0,1,2,5}, per-action post_action_delay in {-,0,1,2,3,7}), chains with 0-3 "
        "async pauses and STOPs that spend virtual time inside run(); tick steps drawn from {0,1ns,1s-1ns,1s,1s+1ns,2s,3s,5s,15s} so "
        "ticks land exactly at, 1ns before and 1ns after t+d; per ruleset instance the oracle recomputes pause_until = STOP time + "
        "(action's own delay if it has one else the ruleset's) and requires: no action in [t,t+d), a chain starts at the first tick "
        ">= t+d on which a group fires, detectors/preruns keep running, other rulesets unaffected. "
        "non-trivial = >=1 STOP with d>0 followed by >=1 tick blocked by the pause and >=1 later chain start; distinct by config+script+steps hash")
ASSUMPTIONS = c02.ASSUMPTIONS
OWN = {"C05"}

STEPS = [0, 1, 10**9 - 1, 10**9, 10**9, 10**9 + 1, 2 * 10**9, 3 * 10**9, 5 * 10**9, 15 * 10**9]


def cases(seed, tier):
    n = 500 if tier == "quick" else 8000
    rng = random.Random(seed * 1000003 + 5)
    for i in range(n):
        nrs = rng.choice([1, 1, 2])
        rulesets = []
        for k in range(nrs):
            rs = c02.gen_ruleset(rng, "r%d" % k, delays=(None, "0", "1", "2", "5"), act_delay=True)
            rulesets.append(rs)
        nticks = rng.randint(10, 16)
        fire_p = rng.choice([0.6, 0.85, 0.97])
        scripts = c02.gen_scripts(rng, rulesets, nticks, fire_p, async_p=rng.choice([0.0, 0.2, 0.4]), stop_p=0.45)
        # some STOPs spend time inside run()
        for k, seq in scripts.items():
            if ".a" in k:
                scripts[k] = [(x + "+" + str(rng.choice([1, 2]))) if x == "S" and rng.random() < 0.15 else x for x in seq]
        ticks = [{"step_ns": rng.choice(STEPS)} for _ in range(nticks)]
        cid = "C05-%d-%d" % (seed, i)
        yield core.Case(cid, [c02.mk_scn(cid, {"rulesets": rulesets}, scripts, ticks)], {"rulesets": nrs, "ticks": nticks})


def judge(case, results):
    v = c02.judge(case, results, own=OWN)
    s = v.stats
    v.nontrivial = s.get("stops", 0) > 0 and s.get("pause_blocked", 0) > 0 and s.get("chain_starts", 0) > 1
    return v


sample = c02.sample
