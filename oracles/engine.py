"""Trace checker for the engine semantics (C02, C05, C06, C11).

Written from docs/configuration.md, docs/ruleset_cgroup.md and the property statements, not
from the C++.  Input: the scenario's config (all plugins are scripted v_det / v_act with unique
ids), the per-tick set of live cgroups for ruleset-cgroup rulesets (computed by the caller from
its own world model), and the event trace.  The checker replays the documented state machine
per ruleset instance using the return values the plugins *actually* returned and the virtual
time they ran at, and reports the first divergence per instance, tagged with the property
whose clause it breaks.
"""
NEG_INF = -(1 << 62)
DEFAULT_DELAY = 15
DEFAULT_HOOK_TIMEOUT = 5


class RS:
    def __init__(self, cfg):
        self.name = cfg["name"]
        self.groups = []
        for g in cfg.get("detectors", []):
            self.groups.append((g[0], [d["args"]["id"] for d in g[1:]]))
        self.actions = []
        for a in cfg.get("actions", []):
            d = a["args"].get("post_action_delay")
            self.actions.append((a["args"]["id"], int(d) if d is not None else None))
        self.delay = int(cfg.get("post_action_delay", DEFAULT_DELAY))
        self.timeout = int(cfg.get("prekill_hook_timeout", DEFAULT_HOOK_TIMEOUT))
        self.cgroup = cfg.get("cgroup") or None
        self.xattr_filter = cfg.get("xattr_filter") or None
        self.det_ids = [d for _, ds in self.groups for d in ds]
        self.act_ids = [a for a, _ in self.actions]


class InstState:
    def __init__(self):
        self.pause_until = NEG_INF
        self.pause_set = False
        self.suspended = None  # (action index, ctx)
        self.uuids = set()
        self.dead = False  # stop checking after first divergence
        self.insts = None  # plugin instance numbers (ruleset-cgroup instances)
        self.seen_ticks = 0


def tok_sleep_ns(tok):
    if tok and "+" in tok:
        return int(float(tok.split("+", 1)[1]) * 1e9)
    return 0


def split_ticks(events):
    ticks, cur, pre = [], None, []
    for e in events:
        if e.get("ev") == "tick":
            cur = []
            ticks.append(cur)
        elif e.get("ev") == "tick_end":
            cur = None
        elif cur is not None:
            cur.append(e)
        elif not ticks:
            pre.append(e)
    return pre, ticks


def check(config, events, live=None, nticks=None, identity=True, excused=None, disabled=None):
    """-> (violations [(prop, rule, disc, detail)], stats dict).
    live: {ruleset name: [set(cgroup rel) per tick]} for ruleset-cgroup rulesets.
    identity=False: the object-identity clauses of C11 are not evaluated (and cannot end the judging of an instance), so that the
    pause / resume clauses of C05 / C06 are still judged per matching cgroup when a build swaps the objects behind its back."""
    V = []
    stats = {"disabled_ticks": 0, "inst_dropped_while_disabled": 0, "excused_skips": 0, "chain_starts": 0, "no_fire_ticks": 0, "resumes": 0, "stops": 0, "pause_blocked": 0,
             "async": 0, "det_runs": 0, "act_runs": 0, "inst_created": 0, "inst_dropped": 0,
             "ticks": 0, "boundary_ticks": 0}
    rulesets = [RS(r) for r in config.get("rulesets", [])]
    id2rs = {}
    for ri, r in enumerate(rulesets):
        for d in r.det_ids:
            id2rs[d] = (ri, "det")
        for a in r.act_ids:
            id2rs[a] = (ri, "act")
    pre, ticks = split_ticks(events)
    if nticks is not None and len(ticks) != nticks:
        return [("ANY", "ticks-missing", "", "expected %d ticks, trace has %d" % (nticks, len(ticks)))], stats
    # template instances = those initialised before tick 0
    template = set()
    for e in pre:
        if e.get("ev") == "plugin" and e.get("m") == "init":
            template.add(e["inst"])
    states = {}  # (ri, cg) -> InstState
    used_insts = set()  # plugin instance numbers that ever belonged to a per-cgroup instance

    def bad(prop, rule, disc, detail, st=None):
        V.append((prop, rule, disc, detail))
        if st is not None:
            st.dead = True

    for ti, evs in enumerate(ticks):
        stats["ticks"] += 1
        pl = [e for e in evs if e.get("ev") == "plugin"]
        runs = [e for e in pl if e["m"] == "run" and e["id"] in id2rs]
        preruns = [e for e in pl if e["m"] == "prerun" and e["id"] in id2rs]
        inits = [e for e in pl if e["m"] == "init" and e["id"] in id2rs]
        # ---- ruleset order (C02): run-phase events of ruleset i precede those of i+1
        last_ri = -1
        for e in runs:
            ri = id2rs[e["id"]][0]
            if ri < last_ri:
                bad("C02", "ruleset-order", "", "tick %d: ruleset %s ran after %s" % (ti, rulesets[ri].name, rulesets[last_ri].name))
                break
            last_ri = max(last_ri, ri)
        for ri, r in enumerate(rulesets):
            rruns = [e for e in runs if id2rs[e["id"]][0] == ri]
            rpre = [e for e in preruns if id2rs[e["id"]][0] == ri]
            if disabled and ti in disabled.get(r.name, ()):
                # disable-on-drop-in and a drop-in targets the ruleset: the base does not act (C13). Its per-cgroup instances are
                # still bound to their cgroups: one whose cgroup is gone on such a tick is gone, whatever comes back later is new
                stats["disabled_ticks"] += 1
                if rruns:
                    bad("C13", "disabled-base-ran", "", "tick %d ruleset %s is disabled by a drop-in but ran %s" % (ti, r.name, sorted({e["id"] for e in rruns})))
                if r.cgroup is not None and live and r.name in live:
                    for (sri, cg) in list(states.keys()):
                        if sri == ri and cg not in live[r.name][ti]:
                            del states[(sri, cg)]
                            stats["inst_dropped"] += 1
                            stats["inst_dropped_while_disabled"] += 1
                continue
            if r.cgroup is None:
                keys = [None]
            else:
                keys = sorted(live[r.name][ti]) if live and r.name in live else None
            # ---- C11: set of evaluated cgroups == live set, each exactly once
            if r.cgroup is not None:
                seen = []
                for e in rruns:
                    if e.get("rcg") not in seen:
                        seen.append(e.get("rcg"))
                # excused: {ruleset: [set per tick]} - cgroups that exist and match, but that oomd could not inspect on that tick
                # (opening the directory failed with something that says nothing about the cgroup). Whether they are evaluated
                # on that tick is not judged; their instance, with all its state, has to be there afterwards.
                skipped = set()
                if excused and r.name in excused and keys is not None and ti < len(excused[r.name]):
                    skipped = {k for k in keys if k in excused[r.name][ti] and k not in seen}
                    stats["excused_skips"] += len(skipped)
                if keys is not None and sorted(x for x in seen if x is not None) != [k for k in keys if k not in skipped]:
                    bad("C11", "live-set", "", "tick %d ruleset %s: evaluated %s, matching cgroups %s" % (ti, r.name, seen, keys))
                    continue
                if keys is None:
                    keys = [x for x in seen]
                # contiguity: each cgroup's events form one block (evaluated exactly once)
                order = [e.get("rcg") for e in rruns]
                blocks = [order[0]] if order else []
                for x in order[1:]:
                    if x != blocks[-1]:
                        blocks.append(x)
                if len(blocks) != len(set(blocks)):
                    bad("C11", "evaluated-once", "", "tick %d ruleset %s: interleaved evaluation %s" % (ti, r.name, blocks))
                    continue
                # instances dropped when the cgroup is not live
                for (sri, cg) in list(states.keys()):
                    if sri == ri and cg not in keys:
                        del states[(sri, cg)]
                        stats["inst_dropped"] += 1
            for cg in keys:
                if r.cgroup is not None and cg in skipped:
                    continue
                st = states.get((ri, cg))
                fresh = st is None
                if fresh:
                    st = states[(ri, cg)] = InstState()
                    if cg is not None:
                        stats["inst_created"] += 1
                if st.dead:
                    continue
                mine = [e for e in rruns if e.get("rcg") == cg]
                dets = [e for e in mine if e["kind"] == "det"]
                acts = [e for e in mine if e["kind"] == "act"]
                stats["det_runs"] += len(dets)
                stats["act_runs"] += len(acts)
                # ---- detectors: each exactly once (C02 / C11 for cgroup instances)
                P = "C02" if cg is None else "C11"
                got = sorted(e["id"] for e in dets)
                if got != sorted(r.det_ids):
                    if st.suspended is not None:
                        P = "C06"  # "while a chain is suspended ... its detectors keep running each tick"
                    bad(P, "detector-once", "", "tick %d ruleset %s cg %s: detectors run %s, configured %s" % (ti, r.name, cg, got, sorted(r.det_ids)), st)
                    continue
                if cg is not None and not identity:
                    # which plugin objects make up this instance right now (needed for the per-instance prerun count even
                    # where the identity clauses themselves are not judged)
                    cur = {e["id"]: e["inst"] for e in mine}
                    if st.insts is None:
                        st.insts = dict(cur)
                    else:
                        st.insts.update(cur)
                # ---- instance identity (C11)
                if cg is not None and identity:
                    insts = {e["id"]: e["inst"] for e in mine}
                    if any(i in template for i in insts.values()):
                        bad("C11", "template-ran", "", "tick %d ruleset %s cg %s: template instance executed run()" % (ti, r.name, cg), st)
                        continue
                    if st.insts is None:
                        st.insts = dict(insts)
                        # fresh state => plugin objects nobody used before, with their own counters at zero
                        reused = sorted(v2 for v2 in insts.values() if v2 in used_insts)
                        stale_calls = sorted((e["id"], e["call"]) for e in mine if e.get("call", 0) != 0)
                        if reused or stale_calls:
                            bad("C11", "stale-instance-after-absence", "reused-objects" if reused else "old-state",
                                "tick %d ruleset %s cg %s: the cgroup was not matched on the previous tick, but it is evaluated with plugin instances %s that already served an earlier incarnation (calls so far %s)" % (ti, r.name, cg, reused, stale_calls), st)
                            continue
                        used_insts.update(insts.values())
                    else:
                        used_insts.update(insts.values())
                        for k, v in insts.items():
                            if k in st.insts and st.insts[k] != v:
                                bad("C11", "instance-stable", "", "tick %d ruleset %s cg %s: plugin %s instance changed %s -> %s while cgroup stayed matched" % (ti, r.name, cg, k, st.insts[k], v), st)
                                break
                            st.insts[k] = v
                        if st.dead:
                            continue
                    # action init args must carry cgroup=<cg> (checked on creation tick)
                    for e in inits:
                        if e["kind"] == "act" and id2rs[e["id"]][0] == ri and e["inst"] in insts.values():
                            want = None
                            for a in [x for x in config["rulesets"][ri]["actions"] if x["args"]["id"] == e["id"]]:
                                want = a["args"].get("cgroup", cg)
                            # the default is handed over as a pattern: glob metacharacters of the name may arrive escaped
                            esc = "".join(("\\" + ch) if ch in "\\*?[]{}" else ch for ch in want) if want == cg else want
                            if e["args"].get("cgroup") not in (want, esc):
                                bad("C11", "action-target", "", "ruleset %s cg %s: action %s initialised with cgroup=%r, expected %r" % (r.name, cg, e["id"], e["args"].get("cgroup"), want), st)
                if st.dead:
                    continue
                # ---- which groups fired (from the *observed* returns)
                fired = []
                for gname, ds in r.groups:
                    rets = [e["ret"] for e in dets if e["id"] in ds]
                    if "S" not in rets:
                        fired.append(gname)
                if not fired:
                    stats["no_fire_ticks"] += 1
                now = dets[0]["t"] if dets else (mine[0]["t"] if mine else None)
                # ---- expected action sequence
                act_seq = [e["id"] for e in acts]
                if now is not None and st.pause_set and abs(now - st.pause_until) <= 1:
                    stats["boundary_ticks"] += 1
                in_pause = now is not None and now < st.pause_until
                if in_pause:
                    if acts:
                        bad("C05", "action-in-pause", "", "tick %d ruleset %s cg %s: action %s ran at t=%d inside pause until %d" % (ti, r.name, cg, act_seq, now, st.pause_until), st)
                        continue
                    if fired or st.suspended:
                        stats["pause_blocked"] += 1
                    continue
                start_idx = None
                ctx0 = None
                if st.suspended is not None:
                    start_idx, ctx0 = st.suspended
                    st.suspended = None
                    stats["resumes"] += 1
                    if not acts or acts[0]["id"] != r.act_ids[start_idx]:
                        bad("C06", "resume-same-action", "", "tick %d ruleset %s cg %s: suspended action %s, but ran %s" % (ti, r.name, cg, r.act_ids[start_idx], act_seq), st)
                        continue
                    c = acts[0]["ctx"]
                    if c != ctx0:
                        bad("C06", "resume-context", ",".join(sorted(k for k in ctx0 if c.get(k) != ctx0[k])),
                            "tick %d ruleset %s cg %s: context on resume %s != context when fired %s" % (ti, r.name, cg, c, ctx0), st)
                        continue
                elif fired:
                    start_idx = 0
                    stats["chain_starts"] += 1
                    if not acts:
                        P2 = "C05" if st.pause_set else "C02"
                        bad(P2, "chain-must-start", "after-pause" if st.pause_set else "", "tick %d ruleset %s cg %s: group %s fired at t=%s (pause_until=%s) but no action ran" % (ti, r.name, cg, fired, now, st.pause_until), st)
                        continue
                    c = acts[0]["ctx"]
                    if c["ruleset"] != r.name or c["group"] != fired[0]:
                        bad("C02", "action-context-names", "", "tick %d: action saw ruleset=%r group=%r, expected %r / first fired %r" % (ti, c["ruleset"], c["group"], r.name, fired[0]), st)
                        continue
                    if c["uuid"] in st.uuids or not c["uuid"]:
                        bad("C06", "uuid-fresh", "", "tick %d ruleset %s: chain started with reused/empty uuid %r" % (ti, r.name, c["uuid"]), st)
                        continue
                    want_dl = now + r.timeout * 10**9
                    if c["deadline"] is None or abs(c["deadline"] - want_dl) > 1:
                        bad("C07", "deadline", "", "tick %d ruleset %s: prekill deadline %s, expected fire time %d + %ds" % (ti, r.name, c["deadline"], now, r.timeout), st)
                        continue
                    if (c["target"] or None) != cg:
                        bad("C11", "ctx-target", "", "tick %d ruleset %s: action context target %r, ruleset cgroup %r" % (ti, r.name, c["target"], cg), st)
                        continue
                    st.uuids.add(c["uuid"])
                    ctx0 = c
                else:
                    if acts:
                        bad("C02", "chain-without-fire", "", "tick %d ruleset %s cg %s: no group fired but actions %s ran" % (ti, r.name, cg, act_seq), st)
                    continue
                # walk the chain
                want = []
                i = start_idx
                end_kind = "end"
                k = 0
                ok = True
                while i < len(r.act_ids):
                    if k >= len(acts):
                        ok = False
                        break
                    e = acts[k]
                    want.append(r.act_ids[i])
                    if e["id"] != r.act_ids[i]:
                        ok = False
                        break
                    if e["ctx"] != ctx0:
                        bad("C06" if st is not None and start_idx else "C02", "context-stable-in-chain", "", "tick %d ruleset %s: action %s saw context %s, chain context %s" % (ti, r.name, e["id"], e["ctx"], ctx0), st)
                        ok = None
                        break
                    if e["ret"] == "S":
                        end_kind = "S"
                        k += 1
                        break
                    if e["ret"] == "A":
                        end_kind = "A"
                        k += 1
                        break
                    i += 1
                    k += 1
                if ok is None:
                    continue
                if not ok or k != len(acts):
                    bad("C06" if start_idx else "C02", "action-order", "resume" if start_idx else "start",
                        "tick %d ruleset %s cg %s: actions ran %s with returns %s; expected order from %s: %s" % (
                            ti, r.name, cg, act_seq, [e["ret"] for e in acts], r.act_ids[start_idx], r.act_ids[start_idx:]), st)
                    continue
                if end_kind == "A":
                    st.suspended = (i, ctx0)
                    stats["async"] += 1
                elif end_kind == "S":
                    e = acts[k - 1]
                    t_stop = e["t"] + tok_sleep_ns(e.get("tok"))
                    own = r.actions[i][1]
                    d = own if own is not None else r.delay
                    st.pause_until = t_stop + d * 10**9
                    st.pause_set = True
                    stats["stops"] += 1
            # ---- prerun: every plugin of every live instance exactly once per tick
            if r.cgroup is None:
                got = sorted(e["id"] for e in rpre)
                want = sorted(r.det_ids + r.act_ids)
                if got != want:
                    st0 = states.get((ri, None))
                    tnow = rpre[0]["t"] if rpre else None
                    paused = st0 is not None and st0.pause_set and tnow is not None and tnow < st0.pause_until
                    # "meanwhile the ruleset's detectors and preruns keep executing every tick" is C05's own clause
                    bad("C05" if paused else "C02", "prerun-once", "in-pause" if paused else "", "tick %d ruleset %s: preruns %s, expected %s" % (ti, r.name, got, want))
            else:
                for cg in keys:
                    st = states.get((ri, cg))
                    if st is None or st.dead or st.insts is None:
                        continue
                    st.seen_ticks += 1
                    mine = set(st.insts.values())
                    got = sorted(e["id"] for e in preruns if e["inst"] in mine)
                    want = sorted(k2 for k2 in st.insts)
                    if got != want:
                        # (on its creation tick an instance is prerun when it is created, i.e. after the tick's prerun phase: the
                        # position is not specified, the count is - every plugin exactly once per tick)
                        tnow = next((e["t"] for e in preruns if e["inst"] in mine), None)
                        paused = st.pause_set and tnow is not None and tnow < st.pause_until
                        bad("C05" if paused else "C11", "prerun-per-instance", "creation-tick" if st.seen_ticks < 2 else ("in-pause" if paused else ""),
                            "tick %d ruleset %s cg %s: instance preruns %s, expected %s" % (ti, r.name, cg, got, want), st)
    return V, stats
