"""Python-side model of the simulated world: mirrors harness/util.cpp apply_ops so oracles know
what existed at every tick."""
import copy


class World:
    def __init__(self, scn):
        self.cg = {}  # rel -> {"files":{}, "xattrs":{}, "gen": n}
        self.gen = 0
        for rel, spec in scn.get("cgroups", {}).items():
            self._mk(self._n(rel), spec)
        self.proc = dict(scn.get("proc", {}))

    @staticmethod
    def _n(rel):
        return "" if rel in ("/", ".") else rel.strip("/")

    def _mk(self, rel, spec):
        # creating a/b/c creates missing ancestors as bare directories
        parts = rel.split("/") if rel else []
        for i in range(len(parts)):
            anc = "/".join(parts[:i])
            if anc not in self.cg:
                self.gen += 1
                self.cg[anc] = {"files": {}, "xattrs": {}, "gen": self.gen}
        if rel not in self.cg:
            self.gen += 1
            self.cg[rel] = {"files": {}, "xattrs": {}, "gen": self.gen}
        c = self.cg[rel]
        for k, v in spec.get("files", {}).items():
            if v is None:
                c["files"].pop(k, None)
            else:
                c["files"][k] = v
        for k, v in spec.get("xattrs", {}).items():
            if v is None:
                c["xattrs"].pop(k, None)
            else:
                c["xattrs"][k] = v

    def apply(self, ops):
        for op in ops or []:
            o = op["op"]
            if o == "write":
                if "proc" in op:
                    if op["text"] is None:
                        self.proc.pop(op["proc"], None)
                    else:
                        self.proc[op["proc"]] = op["text"]
                else:
                    rel = self._n(op["cg"])
                    if rel in self.cg:
                        if op["text"] is None:
                            self.cg[rel]["files"].pop(op["file"], None)
                        else:
                            self.cg[rel]["files"][op["file"]] = op["text"]
            elif o == "rm":
                rel = self._n(op["cg"])
                for k in [k for k in self.cg if k == rel or k.startswith(rel + "/")]:
                    del self.cg[k]
            elif o == "mk":
                self._mk(self._n(op["cg"]), op)
            elif o == "xattr":
                rel = self._n(op["cg"])
                if rel in self.cg:
                    if op["val"] is None:
                        self.cg[rel]["xattrs"].pop(op["name"], None)
                    else:
                        self.cg[rel]["xattrs"][op["name"]] = op["val"]

    def dirs(self):
        return set(self.cg.keys())

    def children(self, rel):
        pre = rel + "/" if rel else ""
        return sorted(k for k in self.cg if k and k.startswith(pre) and "/" not in k[len(pre):] and k != rel)

    def subtree(self, rel):
        return sorted(k for k in self.cg if k == rel or k.startswith(rel + "/") or rel == "")

    def pids(self, rel):
        t = self.cg.get(rel, {}).get("files", {}).get("cgroup.procs", "")
        out = []
        for line in t.split("\n"):
            line = line.strip()
            if line:
                try:
                    out.append(int(line))
                except ValueError:
                    pass
        return out

    def snapshot(self):
        return copy.deepcopy(self)


def worlds_per_tick(scn):
    """-> list of World snapshots, one per tick, as the world looks at the start of that tick's body."""
    w = World(scn)
    out = []
    for t in scn["ticks"]:
        w.apply(t.get("ops"))
        out.append(w.snapshot())
    return out
