"""C07 Prekill hooks: one hook per victim, finished or timed out before the kill."""
import random

from vlib import core, world as W, model, killgen as KG
from oracles import killtrace as KT, path as P, kill as K

ID = "C07"
LEVEL = "exploration"
FLAVORS = ["asan"]
RULE = ("random trees and kill plugins (in the base config or arriving as a drop-in action chain, with drop-in hooks) with 0-3 scripted prekill hooks (patterns: literal, `*` components, `/`, non-matching), hook "
        "completion after 0..6 polls or never, prekill_hook_timeout 0-5 s, tick steps in {0,0.5s,1s-1ns,1s,1s+1ns,1.5s,2s,3s}, kills that fail so the walk falls back to "
        "further victims, and victims removed / re-created at any tick of the wait; over the interleaved stream of hook events "
        "(fire/didFinish/destroy) and kill-boundary events the oracle requires: the hook fired for a victim is the first configured hook "
        "whose patterns match it (three-case relation), it fires iff the chain's window is still open (instants within 1 ns of the deadline "
        "are don't-care), no victim is marked or signalled before its invocation finished or the window closed, the invocation is destroyed "
        "before the victim's first xattr/signal, never two invocations outstanding, and a victim whose identity changed during the wait "
        "is not killed. non-trivial = >=1 hook invocation that needed >=1 extra tick and >=1 kill attempt; distinct by scenario hash")
ASSUMPTIONS = ["v_hook is a PrekillHook subclass using the public API; its pattern parsing is the real PrekillHook::init",
               "single kill action per scenario, so 'per kill action' == global"]
PATS = ["wl", "wl/*", "/", "wl/svc", "wl/svc*", "wl/*/a", "wl/app,wl/db", "other", "wl/*/*", "wl/a/b/c", "*/svc1"]


def cases(seed, tier):
    n = 1000 if tier == "quick" else 6000
    rng = random.Random(seed * 1000003 + 7)
    for i in range(n):
        cid = "C07-%d-%d" % (seed, i)
        plugin = rng.choice(KG.PLUGINS)
        cgs, info, pids = KG.gen_tree(rng, depth=rng.choice([1, 2, 2, 3]), fan=3, pidcounts=(0, 1, 2), unpop_p=0.05, oomgroup_p=0.1)
        pats = KG.patterns_for(rng, info)
        args = KG.kill_args(rng, plugin, pats)
        hooks, hspec = [], {}
        for h in range(rng.choice([0, 1, 1, 2, 3])):
            hid = "h%d" % h
            hooks.append({"name": "v_hook", "args": {"id": hid, "cgroup": rng.choice(PATS)}})
            per_fire = []
            for _ in range(4):
                r = rng.random()
                per_fire.append({"polls": 0} if r < 0.3 else {"polls": rng.randint(1, 6)} if r < 0.85 else {"polls": -1})
            hspec[hid] = per_fire
        kill = {"default": "ok", "pids": {}}
        if rng.random() < 0.6:
            for r in info:
                if rng.random() < 0.5:
                    for p in info[r]["pids"]:
                        kill["pids"][str(p)] = "ESRCH"
        extra = {"prekill_hook_timeout": str(rng.choice([0, 1, 2, 3, 5])), "post_action_delay": "0"}
        if rng.random() < 0.2:
            extra.pop("prekill_hook_timeout")
        nticks = rng.randint(5, 9)
        rels = [r for r in sorted(info) if r != "wl"]
        ticks = []
        for t in range(nticks):
            ops = []
            if t > 0 and rels and rng.random() < 0.3:
                # the processes of a cgroup exit on their own (its directory stays): a victim chosen as populated may be empty
                # when its hook is through, and the walk moves on to the next candidate - which gets its own hook first
                r = rng.choice(rels)
                if not info[r]["children"]:
                    ops += [{"op": "write", "cg": r, "file": "cgroup.procs", "text": ""},
                            {"op": "write", "cg": r, "file": "cgroup.events", "text": "populated 0\nfrozen 0\n"},
                            {"op": "write", "cg": r, "file": "pids.current", "text": "0\n"}]
            if t > 0 and rels and rng.random() < 0.35:
                r = rng.choice(rels)
                ops.append({"op": "rm", "cg": r})
                if rng.random() < 0.6:
                    spec, _ = KG.gen_node(rng, pids, pidcounts=(1, 2))
                    ops.append(dict(op="mk", cg=r, **spec))
            ticks.append({"step_ns": rng.choice([0, 5 * 10**8, 10**9 - 1, 10**9, 10**9, 10**9 + 1, 15 * 10**8, 2 * 10**9, 3 * 10**9]), "ops": ops})
        cfg = KG.kill_config(plugin, args, extra, hooks=hooks)
        order = [(h["args"]["id"], h["args"]["cgroup"]) for h in hooks]
        if rng.random() < 0.3:
            # the kill chain arrives as a drop-in (base disabled while it is there): it is a clone of the base ruleset, so it
            # keeps the base's prekill_hook_timeout; hooks a drop-in brings along rank before the base hooks, newest first
            rs = cfg["rulesets"][0]
            chain = rs["actions"]
            rs["actions"] = [W.act("basepre")]
            rs["drop-in"] = {"actions": True, "disable-on-drop-in": True}
            dcfg = {"rulesets": [{"name": "rk", "actions": chain}]}
            dhooks = []
            for h in range(rng.choice([0, 0, 1, 2])):
                hid = "dh%d" % h
                dhooks.append({"name": "v_hook", "args": {"id": hid, "cgroup": rng.choice(PATS)}})
                hspec[hid] = [rng.choice([{"polls": 0}, {"polls": rng.randint(1, 5)}, {"polls": -1}]) for _ in range(4)]
            ticks[0]["dropins"] = [{"op": "add", "tag": "k.json", "config": dcfg}]
            if dhooks:
                if rng.random() < 0.5:
                    dcfg["prekill_hooks"] = dhooks
                    order = [(h["args"]["id"], h["args"]["cgroup"]) for h in dhooks] + order
                else:
                    # a second, newer drop-in that only carries hooks
                    ticks[0]["dropins"].append({"op": "add", "tag": "h.json", "config": {"rulesets": [], "prekill_hooks": dhooks}})
                    order = [(h["args"]["id"], h["args"]["cgroup"]) for h in dhooks] + order
        scn = KG.base_scn(cid, cgs, cfg, ticks=ticks, kill=kill, hooks=hspec)
        yield core.Case(cid, [scn], {"plugin": plugin, "args": args, "hooks": order, "via_dropin": "dropins" in ticks[0],
                                     "timeout": int(extra.get("prekill_hook_timeout", 5))})


def expected_hook(hooks, victim):
    for hid, pats in hooks:
        for p in pats.split(","):
            if P.hook_match(victim, p):
                return hid
    return None


def judge(case, results):
    v = core.Verdict()
    res, scn = results[0], case.scns[0]
    cr = core.classify_crash(res) if res.crashed else core.exception_outcome(res)
    if cr:
        v.bad("crash:" + cr[0], cr[1], cr[2])
        return v
    if K.parse_bool(case.meta["args"].get("dry")):
        return v
    hooks = case.meta["hooks"]
    ws = model.worlds_per_tick(scn)
    outstanding = None  # undestroyed invocation
    last = None  # most recent invocation (possibly destroyed), awaiting its victim's attempt
    deadline = None
    slow = attempts = fires = 0
    seen_attempt = set()
    for e in res.events:
        k = e.get("ev")
        tick = e.get("tick", -1)
        if tick < 0 or tick >= len(ws):
            continue
        now = e["t"]
        if k == "plugin" and e["m"] == "run" and e["id"] == "pre":
            deadline = e["ctx"]["deadline"]
            want_dl = now + case.meta.get("timeout", 5) * 10**9
            if deadline is None or abs(deadline - want_dl) > 1:
                v.bad("window-length", "via-drop-in" if case.meta.get("via_dropin") else "", "tick %d: chain fired at t=%d with prekill deadline %s; the ruleset's prekill_hook_timeout is %ss => %d" % (
                    tick, now, deadline, case.meta.get("timeout", 5), want_dl))
                deadline = want_dl
            if outstanding:
                v.bad("chain-restart-with-invocation", "", "tick %d: a new chain started while hook invocation %s was outstanding" % (tick, outstanding["inv"]))
            last = None
        elif k == "hook" and e["m"] == "fire":
            fires += 1
            vic = e["victim"]
            if outstanding:
                v.bad("two-invocations", "", "tick %d: hook fired on %s while invocation %d (victim %s) was still outstanding" % (tick, vic, outstanding["inv"], outstanding["victim"]))
            # the window is counted from when the chain fired (deadline seen by the chain head), whatever
            # context the hook is handed later
            dl = deadline if deadline is not None else e["ctx"]["deadline"]
            if deadline is not None and e["ctx"]["deadline"] != deadline:
                v.bad("window-moved", "", "tick %d: hook %s fired with prekill deadline %s, the chain fired with deadline %s" % (tick, e["id"], e["ctx"]["deadline"], deadline))
            if dl is not None and now > dl + 1:
                v.bad("fire-after-window", "", "tick %d: hook %s fired on %s at t=%d, window closed at %d" % (tick, e["id"], vic, now, dl))
            want = expected_hook(hooks, vic)
            if want != e["id"]:
                v.bad("wrong-hook", "", "tick %d: hook %s fired for %s; first matching configured hook is %s (hooks %s)" % (tick, e["id"], vic, want, hooks))
            if last and last["victim"] == vic and not last["consumed"] and last["tick"] == tick and not last.get("failed"):
                v.bad("second-fire-same-victim", "", "tick %d: a second hook fired for victim %s" % (tick, vic))
            gen = ws[tick].cg[vic]["gen"] if vic in ws[tick].cg else None
            outstanding = {"inv": e["inv"], "victim": vic, "gen": gen, "deadline": dl, "finished": False, "tick": tick,
                           "consumed": False, "polls": 0}
            last = outstanding
        elif k == "hook" and e["m"] == "didFinish":
            if not outstanding or outstanding["inv"] != e["inv"]:
                v.bad("poll-of-dead-invocation", "", "tick %d: didFinish() called on invocation %s which is not the outstanding one" % (tick, e["inv"]))
                continue
            outstanding["polls"] += 1
            if e["ret"]:
                outstanding["finished"] = True
            if tick > outstanding["tick"]:
                outstanding["slow"] = True
        elif k == "hook" and e["m"] == "destroy":
            if outstanding and outstanding["inv"] == e["inv"]:
                if outstanding.get("slow"):
                    slow += 1
                outstanding = None
        elif k in ("setxattr", "kill") or (k == "write" and e["path"].startswith("/cg")):
            if k == "setxattr" and e["name"].endswith("oomd_kill_uuid"):
                vic = KT.cgrel(e["path"])
                key = (tick, vic, e["val"])
                if key in seen_attempt:
                    continue
                seen_attempt.add(key)
                attempts += 1
                if outstanding:
                    v.bad("victim-marked-before-destroy", "", "tick %d: victim %s marked while hook invocation %d (victim %s) still alive" % (tick, vic, outstanding["inv"], outstanding["victim"]))
                if last and last["victim"] == vic and not last["consumed"]:
                    last["consumed"] = True
                    dl = last["deadline"]
                    if not last["finished"] and not (dl is not None and now > dl - 1):
                        v.bad("kill-before-hook-finished", "", "tick %d: victim %s marked at t=%d; its hook invocation had not finished (polls %d) and the window closes at %s" % (tick, vic, now, last["polls"], dl))
                    gen = ws[tick].cg[vic]["gen"] if vic in ws[tick].cg else None
                    if gen != last["gen"]:
                        v.bad("killed-changed-victim", "", "tick %d: victim %s was removed/re-created while its hook ran (incarnation %s -> %s) but was still killed" % (tick, vic, last["gen"], gen))
                else:
                    want = expected_hook(hooks, vic) if vic is not None else None
                    if want and deadline is not None and now < deadline - 1:
                        v.bad("hook-not-fired", "", "tick %d: victim %s marked at t=%d with window open until %d, but matching hook %s never fired (hooks %s)" % (tick, vic, now, deadline, want, hooks))
                    elif want:
                        v.count("attempts_after_window")
                # a failed attempt lets the same victim be retried by a later cycle with a new hook
                if last:
                    last["failed"] = True
            elif k == "kill" and outstanding:
                v.bad("signal-before-destroy", "", "tick %d: kill(%s) while hook invocation %d alive" % (tick, e["pid"], outstanding["inv"]))
    if case.meta.get("via_dropin"):
        v.count("kill_chain_from_drop_in")
    v.count("fires", fires)
    v.count("multi_tick_invocations", slow)
    v.count("attempts", attempts)
    v.nontrivial = slow > 0 and attempts > 0
    v.sig = core.scn_hash(scn)
    return v


def sample(case, v):
    s = case.scns[0]
    return {"case": case.id, "plugin": case.meta["plugin"], "args": case.meta["args"], "hooks": case.meta["hooks"], "hook_scripts": s["hooks"],
            "prekill_hook_timeout": s["config"]["rulesets"][0].get("prekill_hook_timeout"),
            "ticks": [(t["step_ns"] // 10**9, [(o["op"], o["cg"]) for o in t["ops"]]) for t in s["ticks"]], "observed": v.stats}
