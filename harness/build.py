#!/usr/bin/env python3
"""Build the oomd sources of /repo's *current working tree* plus the verification
harness into /verif/.build/<flavor>/ with sanitizers.

  build.py <flavor> [--quiet]     flavor in {asan, tsan}

The source list is parsed out of /repo/meson.build (the `srcs = files('''...''')`
block plus the systemd sources, exactly as meson does when libsystemd is present).
A build.ninja with -MD depfiles is generated, so any edited source/header under /repo
is recompiled and nothing stale is ever reused.  Runs under an flock so concurrent
checks can share a build tree.
"""
import fcntl
import os
import re
import subprocess
import sys

VERIF = os.path.dirname(os.path.dirname(os.path.abspath(__file__)))
REPO = os.environ.get("VERIF_REPO", "/repo")
BUILD_ROOT = os.environ.get("VERIF_BUILD_ROOT", os.path.join(VERIF, ".build"))

COMMON = ["-std=c++20", "-g", "-fno-omit-frame-pointer", "-DMESON_BUILD", "-DOOMD_VERIF",
          "-Wno-deprecated-declarations", "-pthread"]
FLAVORS = {
    "asan": ["-O1", "-fsanitize=address,undefined,float-cast-overflow",
             "-fno-sanitize-recover=all", "-D_GLIBCXX_ASSERTIONS"],
    "tsan": ["-O1", "-fsanitize=thread"],
    "plain": ["-O1"],
}
# bin/coverage: VERIF_COV=1 adds gcov instrumentation to whatever flavor is built (into a scratch VERIF_BUILD_ROOT)
COV = bool(os.environ.get("VERIF_COV"))
if COV:
    for _k in FLAVORS:
        FLAVORS[_k] = [f for f in FLAVORS[_k] if f != "-O1"] + ["-O0", "--coverage", "-fprofile-update=atomic", "-DVERIF_COV"]
HARNESS_SRCS = ["interpose.cpp", "sim.cpp", "vplugins.cpp", "main.cpp", "util.cpp",
                "drv_pure.cpp", "drv_dropin.cpp", "drv_threads.cpp"]


def meson_sources():
    text = open(os.path.join(REPO, "meson.build")).read()
    m = re.search(r"^srcs\s*=\s*files\('''(.*?)'''", text, re.S | re.M)
    if not m:
        raise SystemExit("build.py: cannot find srcs in meson.build")
    srcs = m.group(1).split()
    have_systemd = subprocess.run(["pkg-config", "--exists", "libsystemd"]).returncode == 0
    if have_systemd:
        m2 = re.search(r"systemd_dep\.found\(\)\s*\n\s*srcs\s*\+=\s*files\('''(.*?)'''", text, re.S)
        if m2:
            srcs += m2.group(1).split()
    return srcs, have_systemd


def pkg(args):
    return subprocess.run(["pkg-config"] + args, capture_output=True, text=True).stdout.split()


def gen_ninja(flavor, bdir):
    srcs, have_systemd = meson_sources()
    mods = ["jsoncpp"] + (["libsystemd"] if have_systemd else [])
    cflags = COMMON + FLAVORS[flavor] + pkg(["--cflags"] + mods) + [
        "-I" + os.path.join(REPO, "src"), "-I" + bdir, "-I" + os.path.join(VERIF, "harness")]
    if have_systemd:
        cflags.append("-DVERIF_HAVE_SYSTEMD")
    ldflags = FLAVORS[flavor] + ["-pthread", "-rdynamic"] + pkg(["--libs"] + mods) + ["-ldl"]
    out = []
    out.append("cxx = g++")
    out.append("cflags = " + " ".join(cflags))
    out.append("ldflags = " + " ".join(ldflags))
    out.append("rule cc\n  command = $cxx $cflags -MD -MF $out.d -c $in -o $out\n  depfile = $out.d\n  deps = gcc\n  description = CC $out")
    out.append("rule link\n  command = $cxx -o $out $in $ldflags\n  description = LINK $out")
    objs = []
    for s in srcs:
        o = "obj/" + s.replace("/", "_") + ".o"
        out.append("build %s: cc %s" % (o, os.path.join(REPO, s)))
        objs.append(o)
    hobjs = []
    for s in HARNESS_SRCS:
        p = os.path.join(VERIF, "harness", s)
        if not os.path.exists(p):
            continue
        o = "obj/h_" + s + ".o"
        out.append("build %s: cc %s" % (o, p))
        hobjs.append(o)
    main_o = "obj/oomd_Main.o"
    out.append("build %s: cc %s" % (main_o, os.path.join(REPO, "src/oomd/Main.cpp")))
    out.append("build vsim.%s: link %s" % (flavor, " ".join(objs + hobjs)))
    out.append("build oomd.%s: link %s" % (flavor, " ".join(objs + [main_o])))
    out.append("default vsim.%s oomd.%s" % (flavor, flavor))
    text = "\n".join(out) + "\n"
    path = os.path.join(bdir, "build.ninja")
    old = open(path).read() if os.path.exists(path) else None
    if old != text:
        open(path, "w").write(text)
    vh = os.path.join(bdir, "Version.h")
    if not os.path.exists(vh):
        open(vh, "w").write('#pragma once\n#define GIT_VERSION "verif"\n')


def build(flavor, quiet=False, targets=None):
    if flavor not in FLAVORS:
        raise SystemExit("unknown flavor " + flavor)
    bdir = os.path.join(BUILD_ROOT, flavor)
    os.makedirs(os.path.join(bdir, "obj"), exist_ok=True)
    lock = open(os.path.join(bdir, ".lock"), "w")
    fcntl.flock(lock, fcntl.LOCK_EX)
    try:
        gen_ninja(flavor, bdir)
        cmd = ["ninja", "-C", bdir, "-j", str(os.cpu_count() or 8)] + (targets or [])
        r = subprocess.run(cmd, capture_output=True, text=True)
        if r.returncode != 0:
            sys.stderr.write(r.stdout[-8000:] + r.stderr[-4000:])
            raise SystemExit(2)
        if not quiet:
            sys.stderr.write(r.stdout[-400:])
    finally:
        fcntl.flock(lock, fcntl.LOCK_UN)
    return bdir


if __name__ == "__main__":
    fl = [a for a in sys.argv[1:] if not a.startswith("-")]
    for f in fl or ["asan"]:
        build(f, quiet="--quiet" in sys.argv)
