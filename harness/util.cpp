// World helpers and the event log of the harness.  Everything here bypasses the
// interposers (vh::Bypass) so that harness I/O never shows up as an oomd event.
#include <dirent.h>
#include <errno.h>
#include <fcntl.h>
#include <string.h>
#include <sys/stat.h>
#include <sys/syscall.h>
#include <unistd.h>

#include <sstream>

#include "vh.h"

namespace vh {

static ssize_t raw_write(int fd, const void* buf, size_t n) {
  return ::syscall(SYS_write, fd, buf, n);
}

std::string jstr(const Json::Value& v) {
  static Json::StreamWriterBuilder* b = [] {
    auto* x = new Json::StreamWriterBuilder();
    (*x)["indentation"] = "";
    (*x)["precision"] = 17;
    (*x)["emitUTF8"] = true;
    return x;
  }();
  return Json::writeString(*b, v);
}

void ev(Json::Value& e) {
  std::lock_guard<std::mutex> l(g.mu);
  e["seq"] = (Json::UInt64)g.seq++;
  e["tick"] = g.tick;
  e["t"] = (Json::Int64)g.now_ns;
  Bypass b;
  g.buf += jstr(e);
  g.buf += "\n";
  if (g.buf.size() > (1u << 20)) {
    if (g.trace_fd >= 0) {
      raw_write(g.trace_fd, g.buf.data(), g.buf.size());
    }
    g.buf.clear();
  }
}

void flush_trace() {
  std::unique_lock<std::mutex> l(g.mu, std::try_to_lock); // best effort from crash paths
  if (g.trace_fd >= 0 && !g.buf.empty()) {
    raw_write(g.trace_fd, g.buf.data(), g.buf.size());
  }
  g.buf.clear();
}

bool write_file(const std::string& path, const std::string& text) {
  Bypass b;
  int fd = ::syscall(SYS_openat, AT_FDCWD, path.c_str(), O_WRONLY | O_CREAT | O_TRUNC | O_CLOEXEC, 0644);
  if (fd < 0) {
    return false;
  }
  size_t off = 0;
  while (off < text.size()) {
    ssize_t n = raw_write(fd, text.data() + off, text.size() - off);
    if (n <= 0) {
      break;
    }
    off += n;
  }
  ::syscall(SYS_close, fd);
  return off == text.size();
}

std::string read_file(const std::string& path, bool* ok) {
  Bypass b;
  std::string out;
  int fd = ::syscall(SYS_openat, AT_FDCWD, path.c_str(), O_RDONLY | O_CLOEXEC, 0);
  if (fd < 0) {
    if (ok) {
      *ok = false;
    }
    return out;
  }
  char buf[65536];
  while (true) {
    ssize_t n = ::syscall(SYS_read, fd, buf, sizeof buf);
    if (n <= 0) {
      break;
    }
    out.append(buf, n);
  }
  ::syscall(SYS_close, fd);
  if (ok) {
    *ok = true;
  }
  return out;
}

void mkdirs(const std::string& path) {
  Bypass b;
  std::string cur;
  std::istringstream is(path);
  std::string part;
  if (!path.empty() && path[0] == '/') {
    cur = "";
  }
  while (std::getline(is, part, '/')) {
    if (part.empty()) {
      continue;
    }
    cur += "/" + part;
    ::mkdir(cur.c_str(), 0755);
  }
}

void rmtree(const std::string& path) {
  Bypass b;
  DIR* d = ::opendir(path.c_str());
  if (d) {
    std::vector<std::string> names;
    while (auto* de = ::readdir(d)) {
      std::string n = de->d_name;
      if (n == "." || n == "..") {
        continue;
      }
      names.push_back(n);
    }
    ::closedir(d);
    for (auto& n : names) {
      std::string p = path + "/" + n;
      struct stat st;
      if (::lstat(p.c_str(), &st) == 0 && S_ISDIR(st.st_mode)) {
        rmtree(p);
      } else {
        ::unlink(p.c_str());
      }
    }
    ::rmdir(path.c_str());
  } else {
    ::unlink(path.c_str());
  }
}

uint64_t inode_of(const std::string& path) {
  Bypass b;
  struct stat st;
  if (::stat(path.c_str(), &st) != 0) {
    return 0;
  }
  return st.st_ino;
}

std::string cg_abs(const std::string& rel) {
  if (rel.empty() || rel == "/" || rel == ".") {
    return g.cgroot;
  }
  return g.cgroot + "/" + rel;
}

static void drop_xattrs_under(const std::string& dir) {
  // forget emulated xattrs of every directory in the subtree (kernfs inodes die with the cgroup)
  uint64_t ino = inode_of(dir);
  if (ino) {
    g.xattrs.erase(ino);
  }
  DIR* d = ::opendir(dir.c_str());
  if (!d) {
    return;
  }
  std::vector<std::string> subs;
  while (auto* de = ::readdir(d)) {
    std::string n = de->d_name;
    if (n == "." || n == "..") {
      continue;
    }
    struct stat st;
    std::string p = dir + "/" + n;
    if (::lstat(p.c_str(), &st) == 0 && S_ISDIR(st.st_mode)) {
      subs.push_back(p);
    }
  }
  ::closedir(d);
  for (auto& s : subs) {
    drop_xattrs_under(s);
  }
}

void materialize_cgroup(const std::string& rel, const Json::Value& spec) {
  Bypass b;
  std::string dir = cg_abs(rel);
  mkdirs(dir);
  const Json::Value& files = spec["files"];
  for (const auto& name : files.getMemberNames()) {
    if (files[name].isNull()) {
      ::unlink((dir + "/" + name).c_str());
      continue;
    }
    write_file(dir + "/" + name, files[name].asString());
    if (name == "cgroup.procs") {
      std::istringstream is(files[name].asString());
      std::string line;
      while (std::getline(is, line)) {
        char* end = nullptr;
        long v = strtol(line.c_str(), &end, 10);
        if (end != line.c_str() && v > 0) {
          g.pid_cg[v] = rel == "/" || rel == "." ? "" : rel;
        }
      }
    }
  }
  if (spec.isMember("xattrs")) {
    uint64_t ino = inode_of(dir);
    const Json::Value& xa = spec["xattrs"];
    for (const auto& name : xa.getMemberNames()) {
      if (xa[name].isNull()) {
        g.xattrs[ino].erase(name);
      } else {
        g.xattrs[ino][name] = xa[name].asString();
      }
    }
  }
}

void apply_ops(const Json::Value& ops) {
  Bypass b;
  for (const auto& op : ops) {
    std::string o = op["op"].asString();
    if (o == "write") {
      // {"op":"write","cg":rel,"file":name,"text":...} or {"op":"write","proc":name,"text":...}
      if (op.isMember("proc")) {
        std::string p = g.procroot + "/" + op["proc"].asString();
        auto pos = p.rfind('/');
        mkdirs(p.substr(0, pos));
        if (op["text"].isNull()) {
          ::unlink(p.c_str());
        } else {
          write_file(p, op["text"].asString());
        }
      } else {
        std::string dir = cg_abs(op["cg"].asString());
        struct stat st;
        if (::stat(dir.c_str(), &st) != 0) {
          continue; // cgroup is gone: writing would resurrect a plain file tree
        }
        std::string p = dir + "/" + op["file"].asString();
        if (op["text"].isNull()) {
          ::unlink(p.c_str());
        } else {
          write_file(p, op["text"].asString());
          if (op["file"].asString() == "cgroup.procs") {
            Json::Value spec;
            spec["files"]["cgroup.procs"] = op["text"];
            materialize_cgroup(op["cg"].asString(), spec);
          }
        }
      }
    } else if (o == "rm") {
      std::string dir = cg_abs(op["cg"].asString());
      drop_xattrs_under(dir);
      rmtree(dir);
    } else if (o == "mk") {
      materialize_cgroup(op["cg"].asString(), op);
    } else if (o == "xattr") {
      std::string dir = cg_abs(op["cg"].asString());
      uint64_t ino = inode_of(dir);
      if (!ino) {
        continue;
      }
      if (op["val"].isNull()) {
        g.xattrs[ino].erase(op["name"].asString());
      } else {
        g.xattrs[ino][op["name"].asString()] = op["val"].asString();
      }
    } else if (o == "mkfile") {
      // plain file inside the cgroup tree (e.g. a regular file matching a glob)
      write_file(cg_abs(op["path"].asString()), op.get("text", "").asString());
    }
  }
}

} // namespace vh

#ifdef VERIF_COV
// coverage builds only (bin/coverage): the drivers leave through _exit() on purpose, which would skip gcov's
// at-exit dump; flush the counters first.
extern "C" void __gcov_dump(void);
extern "C" [[noreturn]] void _exit(int code) {
  __gcov_dump();
  _Exit(code);
}
#endif
