"""Reference functions from kernel file texts to the statistics oomd documents (C15, and the
inputs of the kill-ranking / detector / senpai references).  Exact integer / Fraction arithmetic;
written from the kernel's file grammar and oomd's docs, not from Fs.cpp / CgroupContext.cpp."""
import math
import re
import struct
from fractions import Fraction as F

INT64_MAX = (1 << 63) - 1
PREFER, NORMAL, AVOID = 1, 0, -1


def f32(x):
    return struct.unpack("f", struct.pack("f", float(x)))[0]


def lines_of(text):
    if text is None:
        return None
    ls = text.split("\n")
    if ls and ls[-1] == "":
        ls.pop()
    return ls


_INT = re.compile(r"^[ \t]*[+-]?\d+")


def int_prefix(s):
    m = _INT.match(s)
    return int(m.group(0)) if m else None


def parse_scalar(text):
    """single integer file (memory.current, memory.swap.current, pids.current)"""
    ls = lines_of(text)
    if not ls:
        return None
    return int_prefix(ls[0])


def parse_limit(text):
    """memory.{min,low,high,max}, memory.swap.max: one line, integer or 'max'"""
    ls = lines_of(text)
    if ls is None or len(ls) != 1:
        return None
    if ls[0] == "max":
        return INT64_MAX
    return int_prefix(ls[0])


def parse_high_tmp(text):
    ls = lines_of(text)
    if ls is None or len(ls) != 1:
        return None
    toks = ls[0].split(" ")
    toks = [t for t in toks if t]
    if len(toks) != 2:
        return None
    if toks[0] == "max":
        return INT64_MAX
    return int_prefix(toks[0])


def parse_psi(text, kind):
    """-> (avg10, avg60, avg300, total_us or None) as python floats rounded to float32, or None"""
    ls = lines_of(text)
    if not ls:
        return None
    if ls[0].startswith("some") and len(ls) >= 2:
        idx = 0 if kind == "some" else 1
        toks = [t for t in ls[idx].split(" ") if t]
        if len(toks) < 5 or toks[0] != kind:
            return None
        kv = {}
        for t in toks[1:5]:
            if "=" not in t:
                return None
            k, v = t.split("=", 1)
            kv[k] = v
        try:
            return (f32(kv["avg10"]), f32(kv["avg60"]), f32(kv["avg300"]), int(kv["total"]))
        except (KeyError, ValueError):
            return None
    if ls[0].startswith("aggr") and len(ls) >= 3:
        idx = 1 if kind == "some" else 2
        toks = [t for t in ls[idx].split(" ") if t]
        if len(toks) < 4 or toks[0] != kind:
            return None
        try:
            return (f32(toks[1]), f32(toks[2]), f32(toks[3]), None)
        except ValueError:
            return None
    return None


def parse_kv(text):
    """memory.stat / cgroup.stat: 'key value' per line (unsigned)"""
    ls = lines_of(text)
    if ls is None:
        return None
    d = {}
    for l in ls:
        m = re.match(r"^\s*(\S+)\s+(\d+)", l)
        if m:
            d[m.group(1)] = int(m.group(2))
    return d


def parse_meminfo(text):
    ls = lines_of(text)
    if ls is None:
        return None
    d = {}
    for l in ls:
        m = re.match(r"^([^:]+):[ \t]+(\d+)", l)
        if m:
            d[m.group(1)] = int(m.group(2)) * 1024
    return d


def parse_iostat(text):
    ls = lines_of(text)
    if ls is None:
        return None
    out = []
    for l in ls:
        m = re.match(r"^\s*(\d+):(\d+) rbytes=(-?\d+) wbytes=(-?\d+) rios=(-?\d+) wios=(-?\d+) dbytes=(-?\d+) dios=(-?\d+)", l)
        if not m:
            return None
        out.append({"dev": "%d:%d" % (int(m.group(1)), int(m.group(2))), "rbytes": int(m.group(3)), "wbytes": int(m.group(4)),
                    "rios": int(m.group(5)), "wios": int(m.group(6)), "dbytes": int(m.group(7)), "dios": int(m.group(8))})
    return out


def parse_populated(text):
    ls = lines_of(text)
    if ls is None:
        return None
    for l in ls:
        t = [x for x in l.split(" ") if x]
        if len(t) == 2 and t[0] == "populated":
            return True if t[1] == "1" else False if t[1] == "0" else None
    return None


def parse_swaps(text):
    """-> (total_bytes, used_bytes)"""
    ls = lines_of(text)
    if ls is None:
        return (0, 0)
    tot = used = 0
    for l in ls[1:]:
        parts = [p for p in l.split("\t") if p]
        if len(parts) != 4:
            return None
        tot += int(parts[1]) * 1024
        used += int(parts[2]) * 1024
    return (tot, used)


def kill_pref(xattrs):
    if "trusted.oomd_prefer" in xattrs or "user.oomd_prefer" in xattrs:
        return PREFER
    if "trusted.oomd_avoid" in xattrs or "user.oomd_avoid" in xattrs:
        return AVOID
    return NORMAL


class Params:
    def __init__(self, scn):
        self.io_devs = scn.get("io_devs", {})
        self.hdd = scn.get("hdd_coeffs", [0] * 6)
        self.ssd = scn.get("ssd_coeffs", [0] * 6)
        self.interval = scn.get("interval", 1)
        self.decay = 4


class View:
    """reference statistics of every cgroup of one world snapshot"""

    def __init__(self, world, params):
        self.w = world
        self.p = params
        self._prot = {}
        mi = parse_meminfo(world.proc.get("meminfo"))
        self.meminfo = mi or {}
        sw = parse_swaps(world.proc.get("swaps"))
        self.swaptotal, self.swapused = sw if sw else (0, 0)

    def f(self, rel, name):
        c = self.w.cg.get(rel)
        if c is None:
            return None
        return c["files"].get(name)

    def exists(self, rel):
        return rel in self.w.cg

    def parent(self, rel):
        return rel.rsplit("/", 1)[0] if "/" in rel else ""

    def current(self, rel):
        if rel == "":
            if "MemTotal" in self.meminfo and "MemFree" in self.meminfo:
                return self.meminfo["MemTotal"] - self.meminfo["MemFree"]
            return None
        return parse_scalar(self.f(rel, "memory.current"))

    def limit(self, rel, name):
        return parse_limit(self.f(rel, name))

    def psi(self, rel, res, kind):
        if rel == "":
            return parse_psi(self.w.proc.get("pressure/" + ("memory" if res == "memory" else "io")), kind)
        return parse_psi(self.f(rel, "memory.pressure" if res == "memory" else "io.pressure"), kind)

    def memstat(self, rel):
        return parse_kv(self.f(rel, "memory.stat"))

    def swap_usage(self, rel):
        return parse_scalar(self.f(rel, "memory.swap.current"))

    def swap_max(self, rel):
        return parse_limit(self.f(rel, "memory.swap.max"))

    def populated(self, rel):
        return parse_populated(self.f(rel, "cgroup.events"))

    def oom_group(self, rel):
        t = self.f(rel, "memory.oom.group")
        if t is None:
            return None
        return lines_of(t) == ["1"]

    def nr_dying(self, rel):
        d = parse_kv(self.f(rel, "cgroup.stat"))
        if d is None:
            return None
        return d.get("nr_dying_descendants", 0)

    def pref(self, rel):
        return kill_pref(self.w.cg[rel]["xattrs"])

    def children(self, rel):
        return [c.rsplit("/", 1)[-1] for c in self.w.children(rel)]

    # ---- derived
    def raw_prot(self, rel):
        c, mn, lo = self.current(rel), self.limit(rel, "memory.min"), self.limit(rel, "memory.low")
        if c is None or mn is None or lo is None:
            return None
        return min(c, max(mn, lo))

    def protection(self, rel):
        """hierarchically distributed memory protection, exact Fraction (oomd reports an integer)"""
        if rel in self._prot:
            return self._prot[rel]
        if rel == "":
            r = self.current("")
            r = None if r is None else F(r)
        else:
            par = self.parent(rel)
            if par == "":
                r = self.raw_prot(rel)
                r = None if r is None else F(r)
            else:
                sibs = self.w.children(par)
                tot = sum((self.raw_prot(s) or 0) for s in sibs)
                if tot == 0:
                    r = F(0)
                else:
                    raw = self.raw_prot(rel)
                    pp = self.protection(par)
                    if raw is None or pp is None:
                        r = None
                    else:
                        # oomd truncates the parent's value to an integer before distributing it
                        r = F(raw) * min(F(1), F(math.floor(pp), tot))
        self._prot[rel] = r
        return r

    def effective_usage(self, rel):
        c, p = self.current(rel), self.protection(rel)
        if c is None or p is None:
            return None
        return F(c) - math.floor(p)

    def eff_swap_max(self, rel):
        if rel == "":
            return self.swaptotal
        m, pm = self.swap_max(rel), self.eff_swap_max(self.parent(rel))
        if m is None or pm is None:
            return None
        return min(m, pm)

    def eff_swap_free(self, rel):
        if rel == "":
            return self.swaptotal - self.swapused
        m, u = self.swap_max(rel), self.swap_usage(rel)
        if m is None or u is None:
            return None
        pf = self.eff_swap_free(self.parent(rel))
        if pf is None:
            return None
        return min(pf, m - u)

    def eff_swap_util(self, rel):
        """-> Fraction, or 'dontcare' when a zero limit makes the ratio undefined, or None"""
        if rel == "":
            if self.swaptotal == 0:
                return F(0)
            return F(self.swapused, self.swaptotal)
        m = self.swap_max(rel)
        if m is None:
            return None
        if m == 0:
            return "dontcare"
        u = self.swap_usage(rel)
        if u is None:
            return None
        pu = self.eff_swap_util(self.parent(rel))
        if pu is None:
            return None
        if pu == "dontcare":
            return "dontcare"
        return max(pu, F(u, m))

    def io_cost_cum(self, rel):
        st = parse_iostat(self.f(rel, "io.stat"))
        if st is None:
            return None
        cost = F(0)
        for d in st:
            kind = self.p.io_devs.get(d["dev"])
            if kind is None:
                continue
            co = self.p.hdd if kind == "hdd" else self.p.ssd
            co = list(co) + [0] * (6 - len(co))
            cost += (d["rios"] * F(co[0]) + d["rbytes"] * F(co[1]) + d["wios"] * F(co[2]) + d["wbytes"] * F(co[3]) +
                     d["dios"] * F(co[4]) + d["dbytes"] * F(co[5]))
        return cost

    def pgscan(self, rel):
        ms = self.memstat(rel)
        if ms is None:
            return None
        return ms.get("pgscan")

    def ident(self, rel):
        return self.w.cg[rel]["gen"]


class History:
    """temporal values over a tick history, per cgroup incarnation (world 'gen')."""

    def __init__(self, params):
        self.p = params
        self.avg = {}  # (rel, gen) -> Fraction
        self.iocum = {}
        self.pg = {}
        self.last_tick = {}

    def step(self, view, rels, tick):
        """advance for the cgroups queried this tick; returns {rel: {average_usage, io_cost_rate, pg_scan_rate}}"""
        out = {}
        for rel in rels:
            if not view.exists(rel):
                continue
            key = (rel, view.ident(rel))
            cont = self.last_tick.get(key) == tick - 1
            cur = view.current(rel)
            d = {}
            if cur is not None:
                prev = self.avg.get(key, F(0)) if cont else F(0)
                a = math.floor(prev) * F(self.p.decay - 1, self.p.decay) + F(cur, self.p.decay)
                self.avg[key] = a
                d["average_usage"] = a
            else:
                self.avg.pop(key, None)
            io = view.io_cost_cum(rel)
            if io is not None:
                d["io_cost_rate"] = io - self.iocum[key] if (cont and key in self.iocum) else F(0)
                self.iocum[key] = io
            else:
                self.iocum.pop(key, None)
            pg = view.pgscan(rel)
            if pg is not None:
                d["pg_scan_rate"] = pg - self.pg[key] if (cont and key in self.pg) else None
                self.pg[key] = pg
            else:
                self.pg.pop(key, None)
            self.last_tick[key] = tick
            out[rel] = d
        return out


def close(a, b, rel=1e-9, abs_=2):
    if a is None or b is None:
        return a is None and b is None
    return abs(float(a) - float(b)) <= abs_ + rel * max(abs(float(a)), abs(float(b)))
