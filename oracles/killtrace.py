"""Parse a sim trace into per-tick kill-action invocations and attempts (events at the libc boundary)."""
from oracles import engine

BOUNDARY = ("kill", "setxattr", "write", "open", "pidfd_open", "process_mrelease", "hook", "sleep", "sd_bus_open_system")


class Attempt:
    def __init__(self, victim, uuid):
        self.victim = victim
        self.uuid = uuid
        self.kills = []
        self.setx = []
        self.writes = []
        self.opens = []
        self.events = []

    @property
    def ok_kills(self):
        return [k for k in self.kills if k["ret"] == 0]


class Invocation:
    def __init__(self, tick):
        self.tick = tick
        self.pre = None  # pre.run event if the chain started this tick
        self.post = None  # post.run event if the real action returned CONTINUE
        self.events = []
        self.attempts = []
        self.stray = []  # boundary events outside any attempt
        self.kmsg = []
        self.hooks = []
        self.ret = None  # 'C' | 'S' | 'A' | None (unknown)

    @property
    def signalled(self):
        return any(a.ok_kills for a in self.attempts)


def cgrel(path):
    # "/cg/a/b" -> "a/b", "/cg" -> ""
    if path == "/cg":
        return ""
    if path.startswith("/cg/"):
        return path[4:]
    return None


def parse(events, pre_id="pre", post_id="post"):
    _, ticks = engine.split_ticks(events)
    invs = []
    for ti, evs in enumerate(ticks):
        inv = Invocation(ti)
        cur = None
        active = False
        for e in evs:
            k = e.get("ev")
            if k == "plugin":
                if e["m"] == "run" and e["id"] == pre_id:
                    inv.pre = e
                elif e["m"] == "run" and e["id"] == post_id:
                    inv.post = e
                continue
            if k not in BOUNDARY:
                continue
            inv.events.append(e)
            if k == "hook":
                inv.hooks.append(e)
                continue
            if k == "write" and e["path"] == "/kmsg":
                inv.kmsg.append(e["data"])
                continue
            if k == "setxattr" and e["name"].endswith(".oomd_kill_uuid"):
                v = cgrel(e["path"])
                if cur is None or cur.uuid != e["val"] or cur.victim != v:
                    cur = Attempt(v, e["val"])
                    inv.attempts.append(cur)
            if cur is None:
                inv.stray.append(e)
                continue
            cur.events.append(e)
            if k == "kill":
                cur.kills.append(e)
            elif k == "setxattr":
                cur.setx.append(e)
            elif k == "write":
                cur.writes.append(e)
            elif k == "open":
                cur.opens.append(e)
        invs.append(inv)
    # return-value inference
    for i, inv in enumerate(invs):
        if inv.post is not None:
            inv.ret = "C"
        elif i + 1 < len(invs):
            nxt = invs[i + 1]
            ran = inv.pre is not None or (i > 0 and invs[i - 1].ret == "A")
            if not ran:
                inv.ret = None
            else:
                inv.ret = "S" if nxt.pre is not None else "A"
    return invs
