"""C14 Drop-in directory watcher: race-free, never fatal, converges to files present."""
import json
import re
import random

from vlib import core, threads, world as W

ID = "C14"
LEVEL = "exploration"
FLAVORS = ["tsan"]
TECHNIQUE = "runtime monitoring: ThreadSanitizer build of the real FsDropInService (inotify watcher thread) + main-loop tick thread + file-operation thread; convergence judged after logical quiescence"
RULE = ("one process per run under ThreadSanitizer: the real FsDropInService watcher thread, a thread running updateDropIns -> prerun -> runOnce "
        "back to back on an engine of scripted plugins, and a thread performing a seeded sequence of 80 (quick) / 150 (thorough) file operations in "
        "the drop-in directory: create, rewrite in one shot and in chunks (partial JSON on disk in between), rename in / out / within, delete, "
        "dot-files, rewrites that bring back byte-identical earlier content (also right after an unusable version), syntactically invalid JSON, JSON that parses but is refused (unknown target ruleset, part the base did not open, bad "
        "numeric field), removing and re-creating the directory; two of the eight file names are 242 and 255 bytes long. Every valid content carries a unique id as a plugin argument, so a tick's "
        "call log shows exactly which contents are active. Oracles: zero ThreadSanitizer reports, process alive, no abort; after the file "
        "thread stopped the driver waits until the watcher thread is blocked in epoll_wait with no pending inotify bytes while >=2 more "
        "ticks completed (logical quiescence, wall clock only as an inconclusive cap), runs 3 more ticks and requires active set == valid "
        "non-dot files present, each with its latest content; files present at start are loaded in name order. "
        "non-trivial = >=3 valid files present at the end and >=1 directory re-creation or >=5 invalid contents along the way; distinct by scenario hash")
ASSUMPTIONS = ["a present file whose latest content is invalid is not a valid file: its older content must not stay active after quiescence",
               "quiescence is sampled through /proc/self/task/<tid>/syscall and FIONREAD on the inotify fd"]
SERIAL_JUDGE = True
MIN_NONTRIVIAL = 1

BASE = {"rulesets": [
    {"name": "r1", "drop-in": {"detectors": True, "actions": True}, "post_action_delay": "0",
     "detectors": [["g", W.det("base1.d")]], "actions": [W.act("base1.a")]},
    {"name": "r2", "drop-in": {"detectors": False, "actions": True}, "post_action_delay": "0",
     "detectors": [["g", W.det("base2.d")]], "actions": [W.act("base2.a")]}]}
# (the last two: names at and near NAME_MAX - an inotify event carries the name, so its size grows with it)
FILES = ["a.json", "b.json", "c.json", "d.json", "e.conf", ".hidden.json", "L" + "o" * 249 + ".json", "m" + "e" * 236 + ".json"]


def content(kind, cid):
    if kind == "valid":
        return json.dumps({"rulesets": [{"name": "r1", "detectors": [["dg", W.det(cid)]]}]})
    if kind == "valid2":
        return json.dumps({"rulesets": [{"name": "r2", "actions": [W.act(cid)]}]})
    if kind == "badjson":
        return "{\"rulesets\": [{\"name\": \"r1\", \"detectors\": [[\"dg\", "
    if kind == "garbage":
        return "not json at all \x01\x02"
    if kind == "unknown_target":
        return json.dumps({"rulesets": [{"name": "nope", "detectors": [["dg", W.det(cid)]]}]})
    if kind == "forbidden":
        return json.dumps({"rulesets": [{"name": "r2", "detectors": [["dg", W.det(cid)]]}]})
    if kind == "bad_value":
        return json.dumps({"rulesets": [{"name": "r1", "post_action_delay": "abc", "detectors": [["dg", W.det(cid)]]}]})
    if kind == "bad_shape":
        return json.dumps({"rulesets": [{"name": ["r1"], "detectors": 5}]})
    if kind == "empty":
        return ""
    raise ValueError(kind)


VALID = ("valid", "valid2")
# ~250 KB that only turn out to be unusable at their very end: keeps the watcher thread busy for a while
BIG = '{"rulesets": [' + '{"name": "r1", "detectors": [["dg", {"name": "v_det", "args": {"id": "busy"}}]]},' * 3000
KINDS = ["valid", "valid", "valid", "valid2", "badjson", "garbage", "unknown_target", "forbidden", "bad_value", "bad_shape", "empty"]


def gen(rng, cid, nops):
    state = {}  # file -> (kind, content id)
    ver = [0]

    hist = {}  # file -> every (kind, content id) it ever held: a later rewrite may bring back the very same bytes

    def new(kind, f):
        if hist.get(f) and rng.random() < 0.2:
            return rng.choice(hist[f])
        ver[0] += 1
        hist.setdefault(f, []).append((kind, "%s#%d" % (f, ver[0])))
        return hist[f][-1]

    initial = {}
    for f in rng.sample(FILES, rng.randint(0, 3)):
        k, c = new(rng.choice(["valid", "valid", "valid2", "badjson"]), f)
        initial[f] = content(k, c)
        state[f] = (k, c)
    missing = rng.random() < 0.12
    if missing:
        # the drop-in directory does not exist when the service starts and is created later
        initial, state = {}, {}
    init_state = dict(state)
    ops = []
    if missing:
        ops += [{"op": "wait_ticks", "n": rng.randint(0, 3)}, {"op": "mkdir"}]
    recreated = invalid = 0
    for _ in range(nops):
        r = rng.random()
        f = rng.choice(FILES)
        if r < 0.45:
            k, c = new(rng.choice(KINDS), f)
            how = rng.random()
            text = content(k, c)
            if how < 0.06:
                ops.append({"op": "link_in", "file": f, "text": text})
            elif how < 0.14:
                ops.append({"op": "write_keepopen", "file": f, "text": text})
            elif how < 0.5:
                ops.append({"op": "write", "file": f, "text": text})
            elif how < 0.8:
                ops.append({"op": "write_chunks", "file": f, "text": text, "chunks": rng.randint(2, 5)})
            else:
                ops.append({"op": "rename_in", "file": f, "text": text})
            state[f] = (k, c)
            invalid += k not in VALID
        elif r < 0.6 and state:
            f = rng.choice(sorted(state))
            if rng.random() < 0.15:
                # emptied in place by truncate(2): still there, no longer usable
                ops.append({"op": "truncate", "file": f})
                state[f] = ("empty", "x")
                invalid += 1
            else:
                ops.append({"op": rng.choice(["delete", "rename_out"]), "file": f})
                state.pop(f)
        elif r < 0.7 and state:
            f = rng.choice(sorted(state))
            to = rng.choice(FILES)
            if to != f:
                ops.append({"op": "rename", "file": f, "to": to})
                state[to] = state.pop(f)
        elif r < 0.75:
            # sometimes a burst: the directory is removed again while the service is still re-arming its watch
            for _ in range(rng.choice([1, 1, 2, 3, 4])):
                ops.append({"op": rng.choice(["rmdir_mkdir", "rmdir_mkdir", "mvdir_mkdir"]), "gap_us": rng.choice([0, 0, 0, 300, 2000, 20000])})
            state.clear()
            recreated += 1
        elif r < 0.79:
            # a file goes valid -> unusable -> back to exactly the bytes it had before, each state seen by the watcher
            k, c = new(rng.choice(VALID), f)
            bk, bc = rng.choice(["badjson", "garbage", "empty", "bad_value", "unknown_target"]), "x"
            for kk, cc in ((k, c), (bk, bc), (k, c)):
                ops.append({"op": rng.choice(["write", "write", "write_chunks", "rename_in"]), "file": f, "text": content(kk, cc), "chunks": 3})
                ops.append({"op": "wait_ticks", "n": rng.randint(1, 3)})
            state[f] = (k, c)
            invalid += 1
        elif r < 0.84:
            # two operations of different kind on one name, back to back, while the watcher is busy parsing a big file: both
            # events wait in the same inotify batch (rewrite-then-delete / delete-then-re-create)
            k, c = new("valid", f)
            ops.append({"op": "write", "file": "zbusy.json", "text": BIG})
            if rng.random() < 0.5:
                ops += [{"op": "write", "file": f, "text": content(k, c)}, {"op": "delete", "file": f}]
                state.pop(f, None)
            else:
                ops += [{"op": "delete", "file": f}, {"op": "write", "file": f, "text": content(k, c)}]
                state[f] = (k, c)
            ops.append({"op": "delete", "file": "zbusy.json"})
        elif r < 0.9:
            ops.append({"op": "wait_ticks", "n": rng.randint(1, 4)})
    # make sure something valid is there at the end
    for f in rng.sample(FILES[:5], 3):
        k, c = new("valid", f)
        ops.append({"op": rng.choice(["write", "write", "write", "link_in", "rename_in", "write_keepopen"]), "file": f, "text": content(k, c)})
        state[f] = (k, c)
    scn = {"id": cid, "seed": rng.randint(1, 10**6), "base": BASE, "initial": initial, "ops": ops, "missing_at_start": missing, "trailing_slash": rng.random() < 0.2, "yield_us": rng.choice([0, 100, 400]), "mutex_yield_ppm": rng.choice([0, 20000, 200000])}
    meta = {"final": {f: list(v) for f, v in state.items()}, "initial": {f: list(v) for f, v in init_state.items()}, "recreated": recreated, "invalid": invalid, "missing_at_start": missing}
    return scn, meta


def gen_storm(rng, cid, nburst):
    """the directory is removed and re-created (or renamed away) hundreds of times back to back while the service keeps re-arming
    its watch on every tick; in the end three valid files are written. Aimed at the instant between looking the directory up
    and placing the watch."""
    ops = []
    for _ in range(nburst):
        ops.append({"op": rng.choice(["rmdir_mkdir"] * 5 + ["mvdir_mkdir"]), "gap_us": rng.choice([0, 0, 0, 0, 50, 300])})
        if rng.random() < 0.02:
            ops.append({"op": "wait_ticks", "n": 1})
    state = {}
    for j, f in enumerate(rng.sample(FILES[:5], 3)):
        c = "%s#%d" % (f, j + 1)
        ops.append({"op": "write", "file": f, "text": content("valid", c)})
        state[f] = ("valid", c)
    scn = {"id": cid, "seed": rng.randint(1, 10**6), "base": BASE, "initial": {}, "ops": ops, "missing_at_start": False, "trailing_slash": False,
           "yield_us": rng.choice([0, 0, 50]), "mutex_yield_ppm": rng.choice([0, 20000]), "storm": nburst}
    meta = {"final": {f: list(v) for f, v in state.items()}, "initial": {}, "recreated": nburst, "invalid": 0, "missing_at_start": False}
    return scn, meta


def gen_flood(rng, cid):
    """dozens of files change between two ticks of a slow main loop (far more than any per-tick batch), some of them twice or
    thrice in a row - rewritten, deleted, re-created - while the queue is being worked off"""
    names = ["f%02d.json" % i for i in range(46)]
    state, ops, ver = {}, [], 0
    for rnd in range(rng.randint(3, 5)):
        for f in names:
            ver += 1
            c = "%s#%d" % (f, ver)
            ops.append({"op": "write", "file": f, "text": content("valid", c)})
            state[f] = ("valid", c)
        for f in rng.sample(names, 12):
            r = rng.random()
            if r < 0.5:
                ops.append({"op": "delete", "file": f})
                state.pop(f, None)
            else:
                ver += 1
                c = "%s#%d" % (f, ver)
                ops.append({"op": rng.choice(["write", "rename_in"]), "file": f, "text": content("valid", c)})
                state[f] = ("valid", c)
        ops.append({"op": "wait_ticks", "n": rng.choice([0, 1, 1])})
    scn = {"id": cid, "seed": rng.randint(1, 10**6), "base": BASE, "initial": {}, "ops": ops, "missing_at_start": False, "trailing_slash": False,
           "yield_us": 0, "tick_us": rng.choice([20000, 40000]), "mutex_yield_ppm": rng.choice([0, 20000]), "flood": len(names)}
    meta = {"final": {f: list(v) for f, v in state.items()}, "initial": {}, "recreated": 0, "invalid": 0, "missing_at_start": False}
    return scn, meta


def cases(seed, tier):
    quick = tier != "thorough"
    rng = random.Random(seed * 1000003 + 14)
    scns, metas = [], []
    for i in range(16 if quick else 80):
        s, m = gen_flood(rng, "C14-%d-flood%d" % (seed, i))
        scns.append(s)
        metas.append(m)
    for i in range(48 if quick else 200):
        s, m = gen_storm(rng, "C14-%d-storm%d" % (seed, i), 1500 if quick else 3000)
        scns.append(s)
        metas.append(m)
    for i in range(40 if quick else 300):
        s, m = gen(rng, "C14-%d-%d" % (seed, i), 80 if quick else 150)
        scns.append(s)
        metas.append(m)
    yield core.Case("C14-batch", scns, {"metas": metas}, driver="watch", flavor="tsan")


def run_batch(driver, flavor, scns):
    # more processes than cores on purpose: the races this check is after need threads to be descheduled at odd moments
    return threads.run(driver, scns, flavor, timeout=240, jobs=32)


def active_ids(tick):
    return [x for x in tick if "#" in x]


def judge(case, results):
    v = core.Verdict()
    nt = set()
    for scn, meta, r in zip(case.scns, case.meta["metas"], results):
        ck = threads.crash_of(r)
        if ck:
            v.bad("crash:" + ck[0], ck[1], "scenario %s\n%s" % (scn["id"], ck[2]))
            continue
        for kind, sig, text in threads.tsan_reports(r["err"]):
            v.bad("tsan:" + kind, sig, text)
        out = r["out"]
        if out is None or not out.get("done"):
            v.bad("no-output", "", r["err"][-1500:])
            continue
        v.count("runs")
        if scn.get("flood"):
            v.count("flood_runs")
        if scn.get("storm"):
            v.count("storm_runs")
            v.count("storm_directory_replacements", scn["storm"])
        v.count("ticks", out["ticks_done"])
        # start-up: name order => newest (largest name) evaluated first
        want0 = [c for f, (k, c) in sorted(meta["initial"].items(), reverse=True) if k == "valid" and not f.startswith(".")]
        got0 = [x for x in active_ids(out["startup_tick"]) if x.split("#")[0] in meta["initial"] and meta["initial"][x.split("#")[0]][0] == "valid"]
        if got0 != want0:
            v.bad("startup-order", "", "files present at start %s: first tick ran %s, expected (loaded in name order, newest first) %s" % (sorted(meta["initial"]), out["startup_tick"], want0))
        if not out["quiescent"]:
            v.count("inconclusive_no_quiescence")
            continue
        want = sorted(c for f, (k, c) in meta["final"].items() if k in VALID and not f.startswith("."))
        # the directory as it really is at the end must be the one the generator planned (a file operation of the driver that
        # failed would otherwise be blamed on oomd)
        texts = {}
        for o in scn["ops"]:
            if o.get("text") is not None:
                m_ = re.search(r'"id": "([^"]+#\d+)"', o["text"])
                texts[o["text"]] = m_.group(1) if m_ else None
        for f, t in scn["initial"].items():
            m_ = re.search(r'"id": "([^"]+#\d+)"', t)
            texts[t] = m_.group(1) if m_ else None
        really = sorted(f for f in out.get("present", {}) if not f.startswith("."))
        planned = sorted(f for f in meta["final"] if not f.startswith("."))
        if really != planned:
            v.count("inconclusive_directory_not_as_planned")
            continue
        # one run() per valid file and tick; two files may hold the very same bytes (a rename followed by a rewrite of the old
        # name with its earlier content), so this is a multiset comparison
        got = sorted(active_ids(out["final_ticks"][-1]))
        if got != want:
            stale = [g for g in got if g not in want]
            missing = [w for w in want if w not in got]
            rule = "stale-content-active" if stale and not missing else "valid-file-not-active" if missing and not stale else "not-converged"
            disc = ""
            if stale:
                f = stale[0].split("#")[0]
                cur = meta["final"].get(f)
                disc = "file-deleted" if cur is None else "latest-content-" + cur[0]
            loglines = [l[-160:] for l in r["err"].split("\n") if re.search(r"inotify|epoll|not a directory|drop in config=|Could not|Failed", l)]
            v.bad(rule, disc, "scenario %s: after quiescence active contents %s; valid files present %s (final state %s); last ops %s; files really present %s\n  last oomd log lines:\n    %s" % (
                scn["id"], got, want, meta["final"], [(o["op"], o.get("file")) for o in scn["ops"][-8:]], really, "\n    ".join(loglines[-60:])))
        else:
            v.count("converged_runs")
        if len(want) >= 3 and (meta["recreated"] or meta["invalid"] >= 5 or scn.get("flood")):
            nt.add(core.scn_hash(scn))
    v.stats["_distinct"] = len(nt)
    v.nontrivial = len(nt) >= 2
    v.sig = "batch"
    return v


def coverage_extra(cases_, verdicts, tier):
    v = verdicts[0]
    return {"evaluations": v.stats.get("runs", 0), "distinct_nontrivial": v.stats.get("_distinct", 0),
            "interleaving_note": "each run is one seeded interleaving of watcher, tick and file threads; ticks executed concurrently with file operations: %d" % v.stats.get("ticks", 0)}


def sample(case, v):
    s = case.scns[0]
    return {"initial_files": sorted(s["initial"]), "ops": [(o["op"], o.get("file"), (o.get("text") or "")[:60]) for o in s["ops"][:12]],
            "observed": {k: val for k, val in v.stats.items() if not k.startswith("_")}}
