"""C20 Async logger: exactly-once FIFO delivery, bounded backlog, per-thread silencing."""
import random
import re

from vlib import core, threads

ID = "C20"
LEVEL = "exploration"
FLAVORS = ["tsan"]
TECHNIQUE = "runtime monitoring: ThreadSanitizer build of the real Log class with a recording / gateable std::streambuf sink; offline exactly-once / FIFO / backlog checker over the recorded history"
RULE = ("one process per run under ThreadSanitizer: the real asynchronous Log (get_for_unittest, inline=false) with a recording std::streambuf "
        "sink that can be slowed or gated (a write blocks until the producers have attempted K more lines; incl. a stall while the batch in flight alone fills the budget, followed by silence and shutdown); 1-8 producer threads log uniquely "
        "numbered, self-describing lines of 8 B..300 KiB with seeded yields, some threads issue DISABLE/ENABLE and kmsg records; after the "
        "producers joined the logger is destroyed. Offline checker: every line reaches the sink at most once and intact, lines of one thread "
        "in increasing order, every missing line is accounted for by the `N messages dropped` notices (sum N == number missing), nothing "
        "accepted is missing after ~Log returned, the lower bound sum(size of lines accepted but not yet handed to the sink) never exceeds "
        "1 MiB (single lines larger than the whole budget included: dropped and counted), silencing affects only the calling thread and never the kmsg record; zero ThreadSanitizer reports. "
        "non-trivial = >=2 producers and (>=1 gate engaged or >=1 drop notice); distinct by scenario hash")
ASSUMPTIONS = ["'accepted' is observed as: the logging call returned; 'written' as: the sink's xsputn for that line started (one global sequence counter)",
               "backlog is measured as a lower bound; the sink gate is released on logical progress, wall-clock only bounds the whole run"]
SERIAL_JUDGE = True
MIB = 1 << 20


def gen(rng, cid, tier):
    nth = rng.choice([1, 2, 2, 3, 4, 8])
    mode = rng.choice(["fast", "slow", "gated", "gated", "gated_big", "fill_race", "fill_race", "stall_quiet"])
    if mode == "stall_quiet":
        # the sink stalls while the batch in flight alone (nearly) fills the 1 MiB budget, so every line logged meanwhile is
        # dropped and nothing is queued behind it; then the sink recovers, nobody logs any more, and the logger shuts down:
        # the pending drop count still has to come out
        nth = rng.choice([1, 2, 4])
        big = rng.choice([MIB - 600, MIB - 5000, 1000000])
        small = rng.choice([9000, 20000, 60000])
        variant = rng.choice(["one_huge", "one_huge", "mid_batch"])
        threads_ = []
        for t in range(nth):
            plan = []
            if variant == "one_huge":
                if t == 0:
                    plan.append({"op": "log", "len": big, "expect_silenced": False})
                else:
                    plan.append({"op": "sleep_us", "us": 20000})
                plan += [{"op": "log", "len": max(small, MIB - big + 500), "expect_silenced": False} for _ in range(rng.randint(3, 40))]
            else:
                plan += [{"op": "log", "len": 100000, "expect_silenced": False} for _ in range(rng.randint(14, 30))]
            threads_.append(plan)
        nlog = sum(len([x for x in p if x["op"] == "log"]) for p in threads_)
        if variant == "one_huge":
            gates = [{"at_write": 0, "until_attempted": nlog}]
        else:
            first = rng.randint(11, 13) * 1
            gates = [{"at_write": 0, "until_attempted": min(nlog, first)}, {"at_write": rng.randint(2, 4), "until_attempted": nlog}]
        return {"id": cid, "seed": rng.randint(1, 10**6), "threads": threads_, "gates": gates, "slow_us": 0, "yield_us": 0,
                "mutex_yield_ppm": rng.choice([0, 20000]), "mode": mode + ":" + variant, "silenced_thread": None,
                "total_bytes": sum(x.get("len", 0) for p in threads_ for x in p)}
    if mode == "fill_race":
        # a blocked sink and several producers hitting the 1 MiB limit at the same moment with equal-sized lines: the
        # check "does it still fit" and the reservation must be one atomic step for the bound to hold
        nth = rng.choice([4, 8])
        size = rng.choice([1000, 16000, 48000, 100000])
        per = (5 * MIB // 2) // (nth * size) + 1
        threads_ = [[{"op": "log", "len": size, "expect_silenced": False} for _ in range(per)] for _ in range(nth)]
        nlog = per * nth
        return {"id": cid, "seed": rng.randint(1, 10**6), "threads": threads_, "gates": [{"at_write": 0, "until_attempted": nlog}], "slow_us": 0,
                "yield_us": 0, "mutex_yield_ppm": rng.choice([0, 20000, 200000]), "mode": mode, "silenced_thread": None, "total_bytes": nlog * size}
    threads_ = []
    silenced_thread = rng.randrange(nth) if nth > 1 and rng.random() < 0.5 else None
    total = 0
    # a single line that is itself larger than the whole 1 MiB budget: never fits, whatever is queued (dropped and counted)
    oversize = rng.random() < 0.25
    for t in range(nth):
        plan = []
        nlines = rng.randint(20, 150) if mode != "gated_big" else rng.randint(10, 40)
        disabled = False
        for k in range(nlines):
            if t == silenced_thread and rng.random() < 0.08:
                plan.append({"op": "enable" if disabled else "disable"})
                disabled = not disabled
            if t == silenced_thread and disabled and rng.random() < 0.2:
                plan.append({"op": "kmsg", "n": k})
            r = rng.random()
            if mode == "gated_big":
                ln = rng.choice([1000, 30000, 100000, 300000])
            else:
                ln = rng.randint(8, 120) if r < 0.7 else rng.randint(200, 5000) if r < 0.95 else rng.choice([40000, 150000, 300000])
            if oversize and rng.random() < 0.03:
                ln = rng.choice([MIB + 1, MIB + 4096, 2 * MIB, 3 * MIB + 17])
            plan.append({"op": "log", "len": ln, "expect_silenced": disabled})
            total += ln
            if rng.random() < 0.05:
                plan.append({"op": "sleep_us", "us": rng.randint(1, 300)})
        threads_.append(plan)
    nlog = sum(1 for p in threads_ for s in p if s["op"] == "log")
    gates = []
    if mode.startswith("gated"):
        at = rng.randint(0, 5)
        for _ in range(rng.randint(1, 3)):
            gates.append({"at_write": at, "until_attempted": min(nlog, at + rng.randint(nlog // 4, nlog))})
            at += rng.randint(1, 30)
    return {"id": cid, "seed": rng.randint(1, 10**6), "threads": threads_, "gates": gates, "slow_us": rng.choice([5, 50]) if mode == "slow" else 0,
            "yield_us": rng.choice([0, 20, 100]), "mutex_yield_ppm": rng.choice([0, 20000, 200000]), "mode": mode, "silenced_thread": silenced_thread, "total_bytes": total}


def cases(seed, tier):
    n = 60 if tier == "quick" else 500
    rng = random.Random(seed * 1000003 + 20)
    scns = [gen(rng, "C20-%d-%d" % (seed, i), tier) for i in range(n)]
    yield core.Case("C20-batch", scns, {"n": n}, driver="log", flavor="tsan")


def run_batch(driver, flavor, scns):
    return threads.run(driver, scns, flavor)


HDR = re.compile(r"^T(\d+)-(\d+)-(\d+)-")


def check_history(v, scn, out):
    prod = out["producers"]
    sink = out["sink"]
    delivered = {}  # (t,k) -> sink seq
    per_thread_last = {}
    dropped_noticed = 0
    i = 0
    for r in sink:
        m = HDR.match(r["head"])
        if m:
            key = (int(m.group(1)), int(m.group(2)))
            if not r["intact"] or int(m.group(3)) != r["len"]:
                v.bad("line-corrupt", "", "line T%d-%d arrived damaged (len %d, header says %s)" % (key[0], key[1], r["len"], m.group(3)))
            if key in delivered:
                v.bad("line-duplicated", "", "line T%d-%d written twice" % key)
            delivered[key] = r["seq"]
            if per_thread_last.get(key[0], -1) > key[1]:
                v.bad("thread-order", "", "thread %d: line %d written after line %d" % (key[0], key[1], per_thread_last[key[0]]))
            per_thread_last[key[0]] = max(per_thread_last.get(key[0], -1), key[1])
        else:
            m2 = re.match(r"^(\d+)$", r["head"].strip())
            if m2:
                dropped_noticed += int(m2.group(1))
    produced = {(p["t"], p["k"]): p for p in prod}
    expected = {k for k, p in produced.items() if not p["silenced"]}
    for k in delivered:
        if k not in produced:
            v.bad("phantom-line", "", "sink received T%d-%d which no producer logged" % k)
        elif produced[k]["silenced"]:
            v.bad("silenced-line-written", "", "thread %d had logging disabled but its line %d was written" % k)
    missing = expected - set(delivered)
    if len(missing) != dropped_noticed:
        v.bad("loss-unaccounted", "", "%d accepted lines never reached the sink but the drop notices add up to %d (mode %s, %d producers)" % (
            len(missing), dropped_noticed, scn["mode"], len(scn["threads"])))
    # backlog lower bound
    evs = []
    for k, p in produced.items():
        if k in delivered:
            evs.append((p["ret"], p["len"]))
            evs.append((delivered[k], -p["len"]))
    evs.sort()
    cur = peak = 0
    for _, d in evs:
        cur += d
        peak = max(peak, cur)
    if peak > MIB:
        v.bad("backlog-exceeds-1MiB", "", "at least %d bytes of accepted lines were waiting to be written at one moment (mode %s; dropped reported: %d)" % (peak, scn["mode"], dropped_noticed))
    # kmsg records of the silenced thread
    want_k = sum(1 for p in scn["threads"] for s in p if s["op"] == "kmsg")
    got_k = out["kmsg"].count("oomd kill: kill-record-")
    if want_k != got_k:
        v.bad("kmsg-suppressed", "", "%d kmsg records issued (some while the thread's logs were disabled), %d reached the kmsg fd" % (want_k, got_k))
    return peak, dropped_noticed, len(delivered)


def judge(case, results):
    v = core.Verdict()
    nt = 0
    sigs = set()
    for scn, r in zip(case.scns, results):
        ck = threads.crash_of(r)
        if ck:
            v.bad("crash:" + ck[0], ck[1], "scenario %s (mode %s)\n%s" % (scn["id"], scn["mode"], ck[2]))
            continue
        for kind, sig, text in threads.tsan_reports(r["err"]):
            v.bad("tsan:" + kind, sig, text)
        if r["out"] is None:
            v.bad("no-output", "", r["err"][-1500:])
            continue
        peak, dropped, ndel = check_history(v, scn, r["out"])
        v.count("lines_delivered", ndel)
        v.count("lines_dropped_reported", dropped)
        v.count("max_backlog_bytes_seen", 0)
        v.stats["max_backlog_bytes_seen"] = max(v.stats["max_backlog_bytes_seen"], peak)
        v.count("lines_larger_than_the_budget", sum(1 for p in scn["threads"] for x in p if x["op"] == "log" and x["len"] > MIB and not x["expect_silenced"]))
        v.count("gate_blocks", r["out"]["gate_blocks"])
        v.count("runs")
        if len(scn["threads"]) >= 2 and (r["out"]["gate_blocks"] or dropped):
            nt += 1
            sigs.add(core.scn_hash(scn))
    v.count("nontrivial_runs", nt)
    v.nontrivial = nt >= 2
    v.sig = "batch"
    v.stats["_distinct"] = len(sigs)
    return v


MIN_NONTRIVIAL = 1


def coverage_extra(cases_, verdicts, tier):
    v = verdicts[0]
    return {"evaluations": v.stats.get("runs", 0), "distinct_nontrivial": v.stats.get("_distinct", 0),
            "interleaving_note": "distinct interleavings are not enumerable here; each run is a different seeded schedule (yields, gate positions, sink speed)"}


def sample(case, v):
    s = case.scns[0]
    return {"scenario": {k: s[k] for k in ("mode", "gates", "slow_us", "silenced_thread", "total_bytes")}, "producers": len(s["threads"]),
            "first_steps_thread0": s["threads"][0][:6], "observed": {k: val for k, val in v.stats.items() if not k.startswith("_")}}
