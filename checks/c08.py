"""C08 Detectors decide by their documented predicate over the whole sample history."""
import random

from vlib import core, world as W, model, killgen as KG
from oracles import cgroup as CG, detect as D, engine

ID = "C08"
LEVEL = "exploration"
FLAVORS = ["asan"]
RULE = ("16-22 tick histories on the virtual clock with irregular spacing (0, 0.5, 1, 1.5, 2, 7 s, and holes of 31 s to a day), 3-4 watched cgroups whose pressure / usage / "
        "pgscan / dying-descendant values hover around the thresholds, cgroups vanishing and returning, thresholds as integers, bare MB, "
        "K/M/G suffixes and percent, durations 0-30, both resources, single / multi / wildcard / non-matching patterns; each real detector "
        "sits alone in a detector group in front of a scripted action, so 'action ran on tick i' <=> 'detector returned CONTINUE on tick i'; "
        "the per-tick verdicts are compared with the documented predicate evaluated over the whole history (don't-care: weighted-pressure "
        "ties, values within float rounding of a threshold, memory_reclaim's undefined first sample and its sub-second floor band, "
        "pressure_rising_beyond's first tick). non-trivial = the reference verdict changes at least once along the history; distinct by scenario hash")
ASSUMPTIONS = ["virtual CLOCK_MONOTONIC; every tick rewrites the simulated control files before oomd reads them",
               "reference predicates in oracles/detect.py are the reading of docs/core_plugins.md stated in the property"]
DETS = ["pressure_above", "pressure_rising_beyond", "memory_above", "memory_reclaim", "swap_free", "exists", "nr_dying_descendants"]
NAMES = ["a", "b", "c1", "c2"]
PATS = ["wl/*", "wl/a", "wl/a,wl/b", "wl/c*", "wl/zz", "wl/c?,wl/zz", "wl"]


def det_args(rng, name, mem_total):
    pat = rng.choice(PATS)
    dur = rng.choice([0, 0, 1, 2, 3, 5, 10, 30])
    if name == "pressure_above":
        return {"cgroup": pat, "resource": rng.choice(["memory", "io"]), "threshold": str(rng.choice([10, 40, 60, 80])), "duration": str(dur)}
    if name == "pressure_rising_beyond":
        a = {"cgroup": pat, "resource": rng.choice(["memory", "io"]), "threshold": str(rng.choice([10, 40, 60])), "duration": str(dur)}
        if rng.random() < 0.5:
            a["fast_fall_ratio"] = rng.choice(["0.5", "0.85", "0.95", "0"])
        return a
    if name == "memory_above":
        thr = rng.choice(["512", "1G", "1.5G", "512M 256K", "10%", "50%", "1000", "2G"])
        a = {"cgroup": pat, "duration": str(dur)}
        a["threshold_anon" if rng.random() < 0.3 else "threshold"] = thr
        if rng.random() < 0.15:
            a["threshold"] = "1"
            a["threshold_anon"] = thr
        return a
    if name == "memory_reclaim":
        return {"cgroup": pat, "duration": str(rng.choice([0, 1, 2, 5, 10]))}
    if name == "swap_free":
        return {"threshold_pct": str(rng.choice([0, 5, 15, 50, 100]))}
    if name == "exists":
        a = {"cgroup": rng.choice(PATS + ["wl/b", "wl/b,wl/zz", "wl/*/x"])}
        if rng.random() < 0.4:
            a["negate"] = rng.choice(["true", "false"])
        return a
    if name == "nr_dying_descendants":
        a = {"cgroup": pat, "count": str(rng.choice([0, 1, 5, 100]))}
        if rng.random() < 0.6:
            a["lte"] = rng.choice(["true", "false"])
        return a


def gen_values(rng, around):
    """a value history that hovers around `around`"""
    mode = rng.choice(["above", "below", "hover", "hover", "ramp"])
    def f(i):
        if mode == "above":
            return around * rng.uniform(1.05, 1.6)
        if mode == "below":
            return around * rng.uniform(0.2, 0.95)
        if mode == "ramp":
            return around * (0.5 + i * 0.08)
        return around * rng.choice([0.8, 0.95, 1.0, 1.05, 1.3])
    return f


def cases(seed, tier):
    per = 300 if tier == "quick" else 2000
    rng = random.Random(seed * 1000003 + 8)
    for i in range(per * len(DETS) // 3):
        cid = "C08-%d-%d" % (seed, i)
        mem_total_kb = rng.choice([4 << 20, 16 << 20])
        swap_kb = rng.choice([0, 1 << 20, 4 << 20])
        nticks = rng.randint(16, 22)
        dets = [DETS[(i * 3 + k) % len(DETS)] for k in range(3)]
        rulesets = []
        for k, name in enumerate(dets):
            args = det_args(rng, name, mem_total_kb * 1024)
            rulesets.append({"name": "r%d" % k, "post_action_delay": "0",
                             "detectors": [["g", {"name": name, "args": args}]], "actions": [W.act("a%d" % k)]})
        pf = {nm: gen_values(rng, rng.choice([10, 40, 60, 80])) for nm in NAMES}
        uf = {nm: gen_values(rng, rng.choice([512 << 20, 1 << 30, 3 << 29, 2 << 30, mem_total_kb * 512])) for nm in NAMES}
        # anon share per cgroup, uncorrelated with total usage (the biggest cgroup is not the biggest by anon)
        afk = {nm: rng.choice([0.05, 0.3, 0.6, 0.95, None]) for nm in NAMES}
        af = {nm: (lambda t, nm=nm: afk[nm] if afk[nm] is not None else rng.choice([0.1, 0.5, 0.9])) for nm in NAMES}
        present = {nm: True for nm in NAMES}

        def spec(nm, t, pg):
            a10 = min(99.99, pf[nm](t)) + NAMES.index(nm) * 0.37
            a60 = min(99.99, pf[nm](t) * rng.uniform(0.7, 1.2))
            cur = int(uf[nm](t))
            return W.cgroup(current=cur, mem_pressure=W.psi(full=(a10, a60, rng.uniform(0, 50), 5 + t)),
                            io_pressure=W.psi(full=(a60, a10, rng.uniform(0, 50), 5 + t)),
                            stat=W.memstat({"anon": int(cur * af[nm](t)), "pgscan": pg}), nr_dying=rng.choice([0, 0, 1, 5, 6, 200]))

        pgs = {nm: rng.choice([0, 100]) for nm in NAMES}
        cgs = {"/": W.root_cgroup(), "wl": W.cgroup(current=1 << 20, mem_pressure=W.psi(full=(55.0, 45.0, 5.0, 1)), nr_dying=2)}
        for nm in NAMES:
            cgs["wl/" + nm] = spec(nm, 0, pgs[nm])
        ticks = []
        for t in range(nticks):
            ops = []
            if t > 0:
                for nm in NAMES:
                    if present[nm] and rng.random() < 0.06:
                        ops.append({"op": "rm", "cg": "wl/" + nm})
                        present[nm] = False
                        continue
                    if not present[nm]:
                        if rng.random() < 0.4:
                            present[nm] = True
                        else:
                            continue
                    if rng.random() < 0.4:
                        pgs[nm] += rng.choice([0, 0, 1, 500])
                    ops.append(dict(op="mk", cg="wl/" + nm, **spec(nm, t, pgs[nm])))
                if swap_kb and rng.random() < 0.5:
                    used = rng.choice([0, swap_kb // 2, swap_kb * 9 // 10, swap_kb * 96 // 100, swap_kb])
                    ops.append({"op": "write", "proc": "swaps", "text": W.swaps(((swap_kb, used),))})
            ticks.append({"step_ns": rng.choice([0, 5 * 10**8, 10**9, 10**9, 10**9, 15 * 10**8, 2 * 10**9, 7 * 10**9]), "ops": ops})
        if rng.random() < 0.3:
            # holes in the sample series: the main loop stalled (or runs with a long interval) for much longer than any duration
            for t in rng.sample(range(2, nticks), rng.choice([1, 1, 2])):
                ticks[t]["step_ns"] = rng.choice([31, 45, 90, 600, 86400]) * 10**9
        proc = W.proc(mem_total_kb=mem_total_kb, swap_entries=((swap_kb, swap_kb // 4),) if swap_kb else ())
        scn = KG.base_scn(cid, cgs, {"rulesets": rulesets}, ticks=ticks, proc=proc)
        yield core.Case(cid, [scn], {"detectors": [(r["detectors"][0][1]["name"], r["detectors"][0][1]["args"]) for r in rulesets]})


def judge(case, results):
    v = core.Verdict()
    res, scn = results[0], case.scns[0]
    cr = core.classify_crash(res) if res.crashed else core.exception_outcome(res)
    if cr:
        v.bad("crash:" + cr[0], cr[1], cr[2])
        return v
    params = CG.Params(scn)
    ws = model.worlds_per_tick(scn)
    views = [CG.View(w, params) for w in ws]
    _, ticks = engine.split_ticks(res.events)
    if len(ticks) != len(ws):
        v.bad("ticks-missing", "", "trace has %d ticks" % len(ticks))
        return v
    times = []
    for evs in ticks:
        times.append(evs[0]["t"] if evs else None)
    flips = 0
    for k, (name, args) in enumerate(case.meta["detectors"]):
        want = D.predict(name, args, views, times)
        got = [any(e.get("ev") == "plugin" and e["m"] == "run" and e["id"] == "a%d" % k for e in evs) for evs in ticks]
        v.count("verdicts", len(got))
        v.count("dontcare", sum(1 for w in want if w is None))
        v.count("det:" + name)
        known = [w for w in want if w is not None]
        flips += sum(1 for a, b in zip(known, known[1:]) if a != b)
        for i, (w, g) in enumerate(zip(want, got)):
            if w is not None and w != g:
                hist = "".join("C" if x else "s" for x in got)
                ref = "".join("?" if x is None else "C" if x else "s" for x in want)
                v.bad("verdict", name, "%s args %s: tick %d returned %s, documented predicate says %s\n    observed  %s\n    reference %s\n    tick times(s) %s" % (
                    name, args, i, "CONTINUE" if g else "STOP", "CONTINUE" if w else "STOP", hist, ref, [round((t - times[0]) / 1e9, 1) for t in times]))
                break
    v.count("reference_flips", flips)
    v.nontrivial = flips > 0
    v.sig = core.scn_hash(scn)
    return v


def sample(case, v):
    s = case.scns[0]
    return {"case": case.id, "detectors": case.meta["detectors"], "tick_steps_s": [t["step_ns"] / 1e9 for t in s["ticks"]],
            "ops_tick3": s["ticks"][3]["ops"][:2], "observed": v.stats}
