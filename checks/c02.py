"""C02 Engine firing rule — scripted plugins in the real registry, real Oomd::run loop."""
import random

from vlib import core, world as W
from oracles import engine

ID = "C02"
LEVEL = "exploration"
FLAVORS = ["asan"]
RULE = ("random configs (1-3 rulesets x 1-3 groups x 1-3 detectors x 1-4 actions, silence-logs, delays) with random "
        "per-call return scripts (C/S/A) and clock steps in {0,1,2,5,20}s over 8-12 ticks; every tick of every ruleset "
        "is checked against the documented state machine using the returns the plugins actually produced; "
        "multi-ruleset cases are additionally re-run one ruleset at a time and per-ruleset traces compared. "
        "non-trivial = at least one chain start and at least one tick on which no group fired; distinct = by config+script hash")
ASSUMPTIONS = ["scripted v_det/v_act plugins use only the public plugin API",
               "virtual CLOCK_MONOTONIC via interposed clock_gettime; ticks driven through interposed sigtimedwait",
               "reference state machine is the reading of docs/configuration.md given in DESIGN.md appendix B"]
# the chain-start clause of C02 names the post-action pause, so the pause rules are owned here too
OWN = {"C02", "C05"}

BASE_WORLD = {"proc": W.proc(), "cgroups": {"/": W.root_cgroup()}}


def gen_ruleset(rng, name, delays=(None, "0", "1", "5"), act_delay=False, async_p=0.15):
    groups = []
    for gi in range(rng.randint(1, 3)):
        dets = [W.det("%s.g%d.d%d" % (name, gi, di)) for di in range(rng.randint(1, 3))]
        groups.append(["g%d" % gi] + dets)
    acts = []
    for ai in range(rng.randint(1, 4)):
        kw = {}
        if act_delay and rng.random() < 0.5:
            kw["post_action_delay"] = rng.choice([0, 1, 2, 3, 7])
        acts.append(W.act("%s.a%d" % (name, ai), **kw))
    rs = {"name": name, "detectors": groups, "actions": acts}
    d = rng.choice(delays)
    if d is not None:
        rs["post_action_delay"] = d
    sl = rng.choice([None, "engine", "plugins", "engine,plugins"])
    if sl:
        rs["silence-logs"] = sl
    if rng.random() < 0.3:
        rs["prekill_hook_timeout"] = str(rng.choice([0, 1, 5, 30]))
    return rs


def gen_scripts(rng, rulesets, nticks, fire_p, async_p=0.15, stop_p=0.3):
    scripts = {}
    for rs in rulesets:
        for g in rs["detectors"]:
            for d in g[1:]:
                seq = []
                for _ in range(nticks):
                    x = rng.random()
                    seq.append("C" if x < fire_p else ("A" if x < fire_p + 0.05 else "S"))
                scripts[d["args"]["id"]] = seq
        for a in rs["actions"]:
            seq = []
            for _ in range(nticks * 2):
                x = rng.random()
                seq.append("S" if x < stop_p else ("A" if x < stop_p + async_p else "C"))
            scripts[a["args"]["id"]] = seq
    return scripts


def gen_ticks(rng, n, steps=(0, 1, 1, 1, 2, 5, 20)):
    return [{"step_ns": rng.choice(steps) * 10**9} for _ in range(n)]


def dropin_noise(rng, rulesets, ticks, p=0.35):
    """drop-in requests between ticks that must not disturb the base rulesets: every base ruleset opens detectors and actions up
    (disable-on-drop-in stays off), the drop-ins bring their own detector group and action (ids unknown to the oracle, scripted
    plugins default to CONTINUE), are added / re-added / removed, and some adds fail half-way (second ruleset of the file has
    an unknown target) and are rolled back. Returns the number of requests."""
    for rs in rulesets:
        rs["drop-in"] = {"detectors": True, "actions": True}
    tags, live, n = ["n0.json", "n1.json", "n2.json"], set(), 0
    for ti, t in enumerate(ticks):
        if ti == 0 or rng.random() > p:
            continue
        ops = []
        for _ in range(rng.choice([1, 1, 2])):
            tag = rng.choice(tags)
            r = rng.random()
            n += 1
            if r < 0.4 and tag in live:
                ops.append({"op": "remove", "tag": tag})
                live.discard(tag)
            else:
                u = "x%d.%d" % (ti, n)
                tgt = rng.choice(rulesets)["name"]
                part = rng.random()
                rsd = {"name": tgt}
                if part < 0.8:
                    rsd["detectors"] = [["dg", W.det(u + ".d")]]
                    rsd["actions"] = [W.act(u + ".a")]
                else:
                    # only hooks / nothing for the ruleset itself would re-instantiate the base's plugins under the same ids
                    rsd = None
                cfg = {"rulesets": [rsd] if rsd else []}
                if r > 0.8 and rsd:
                    cfg["rulesets"].append({"name": "no-such-ruleset", "actions": [W.act(u + ".b")]})
                else:
                    live.add(tag)
                ops.append({"op": "add", "tag": tag, "config": cfg, "_u": u, "_target": tgt})
        t["dropins"] = ops
    return n


def mk_scn(cid, config, scripts, ticks, extra=None):
    s = {"id": cid, "interval": 1, "config": config, "scripts": scripts, "ticks": ticks}
    s.update(BASE_WORLD)
    if extra:
        s.update(extra)
    return s


def cases(seed, tier):
    n = 1000 if tier == "quick" else 10000
    rng = random.Random(seed * 1000003 + 2)
    for i in range(n):
        nrs = rng.choice([1, 1, 2, 2, 3])
        rulesets = [gen_ruleset(rng, "r%d" % k) for k in range(nrs)]
        nticks = rng.randint(8, 12)
        fire_p = rng.choice([0.5, 0.75, 0.9, 0.97])
        scripts = gen_scripts(rng, rulesets, nticks, fire_p)
        if i % 4 == 1 and not (nrs > 1 and i % 3 == 0):
            # (not in the cases that are re-run one ruleset at a time: time others spend shifts absolute times)
            # actions that take their time (virtual seconds pass inside run()): the pause starts when the chain STOPs, not when
            # the tick began, and what one ruleset spends does not shorten another one's pause
            for k in scripts:
                if ".a" in k:
                    scripts[k] = [(x + "+" + str(rng.choice([1, 2, 3]))) if x in ("S", "C") and rng.random() < 0.25 else x for x in scripts[k]]
        ticks = gen_ticks(rng, nticks)
        cid = "C02-%d-%d" % (seed, i)
        if i % 5 == 4 and not (nrs > 1 and i % 3 == 0):
            dropin_noise(rng, rulesets, ticks)
        extra = None
        if i % 7 == 6 and not (nrs > 1 and i % 3 == 0):
            # "every enabled ruleset" includes the per-cgroup instances of a ruleset-level cgroup, which come and go
            cg = {"/": W.root_cgroup(), "wl/x1": W.cgroup(), "wl/y": W.cgroup()}
            rulesets[0]["cgroup"] = "wl/x*"
            for t in range(1, nticks):
                if rng.random() < 0.3:
                    u = rng.choice(["wl/x1", "wl/x2", "wl/x3"])
                    ticks[t].setdefault("ops", []).append(rng.choice([{"op": "rm", "cg": u}, dict(op="mk", cg=u, **W.cgroup())]))
            extra = {"cgroups": cg}
        scns = [mk_scn(cid, {"rulesets": rulesets}, scripts, ticks, extra)]
        if nrs > 1 and i % 3 == 0:
            for k, rs in enumerate(rulesets):
                scns.append(mk_scn("%s-alone%d" % (cid, k), {"rulesets": [rs]}, scripts, ticks))
        yield core.Case(cid, scns, {"rulesets": nrs, "ticks": nticks})


def proj(events, ids):
    out = []
    for e in events:
        if e.get("ev") == "plugin" and e["id"] in ids and e["m"] in ("run", "prerun"):
            c = e.get("ctx")
            out.append((e["tick"], e["kind"], e["id"], e["m"], e.get("ret"),
                        (c["ruleset"], c["group"], c["deadline"], c["target"]) if c and e["kind"] == "act" else None))
    return out


def judge(case, results, own=OWN):
    v = core.Verdict()
    res = results[0]
    scn = case.scns[0]
    cr = core.classify_crash(res) if res.crashed else core.exception_outcome(res)
    if cr:
        v.bad("crash:" + cr[0], cr[1], cr[2])
        return v
    viol, st = engine.check(scn["config"], res.events, nticks=len(scn["ticks"]), identity="C11" in own)
    st["dropin_requests"] = sum(1 for e in res.events if e.get("ev") == "dropin")
    st["dropin_adds_applied"] = sum(1 for e in res.events if e.get("ev") == "dropin_result" and e["op"] == "add" and e["ok"])
    st["dropin_adds_rolled_back"] = sum(1 for e in res.events if e.get("ev") == "dropin_result" and e["op"] == "add" and not e["ok"])
    for prop, rule, disc, detail in viol:
        # "each detector of every enabled ruleset executes exactly once" is C02's own clause whatever state the ruleset is in
        if prop in own or prop == "ANY" or ("C02" in own and rule in ("detector-once", "prerun-once", "prerun-per-instance")):
            v.bad(rule, disc, detail)
        else:
            v.count("other_property_divergence:" + prop + ":" + rule)
    for k, n in st.items():
        v.count(k, n)
    v.nontrivial = st["chain_starts"] > 0 and st["no_fire_ticks"] > 0
    v.sig = core.scn_hash([scn["config"], scn["scripts"], scn["ticks"]])
    # metamorphic independence
    if len(results) > 1 and not viol:
        rs_list = [engine.RS(r) for r in scn["config"]["rulesets"]]
        for k, r in enumerate(rs_list):
            alone = results[1 + k]
            if alone.crashed:
                cr = core.classify_crash(alone)
                v.bad("crash:" + cr[0], cr[1], cr[2])
                continue
            ids = set(r.det_ids + r.act_ids)
            a, b = proj(res.events, ids), proj(alone.events, ids)
            v.count("independence_pairs")
            if a != b:
                j = next((x for x in range(min(len(a), len(b))) if a[x] != b[x]), min(len(a), len(b)))
                v.bad("ruleset-independence", "", "ruleset %s behaves differently alone vs among others at #%d: %s vs %s" % (
                    r.name, j, a[j:j + 2], b[j:j + 2]))
    return v


def sample(case, v):
    s = case.scns[0]
    return {"case": case.id, "config": s["config"], "scripts": {k: "".join(x[0] for x in val) for k, val in list(s["scripts"].items())[:6]},
            "tick_steps_s": [t["step_ns"] // 10**9 for t in s["ticks"]], "observed": v.stats}
