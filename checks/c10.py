"""C10 A tick survives missing, empty or vanishing cgroup files without crash or UB (fault enumeration)."""
import copy
import random

from vlib import core, world as W, model, killgen as KG
from oracles import cgroup as CG, engine
from checks import c01

ID = "C10"
LEVEL = "fault_enumeration"
FLAVORS = ["asan"]
RULE = ("6 baseline scenarios (3 ticks each) that together configure every core plugin (all 7 detectors + dump_cgroup_overview, the five kill "
        "plugins wet and recursive, senpai in both modes, a ruleset-level cgroup, the root cgroup '/') plus a probe plugin; fault spaces: "
        "F1 every (cgroup, control file) x {absent, empty, unreadable(EACCES), opens but every read(2) fails}; F2 each key removed from /proc/vmstat, /proc/meminfo, "
        "memory.stat, and /proc/swaps, meminfo, vmstat, pressure files absent/empty/malformed, permanently or for a single tick; F3 directory entries without d_type; F6 write(2) on each writable control file / the kmsg sink failing with EBUSY, EINTR (1 and 3 times), ENOSPC, ENODEV, EAGAIN or short, xattr reads failing with EIO/EACCES/ENOTSUP/ENODEV, trusted.* xattr writes refused; F4 for "
        "every index k of the tick's file-access sequence (open/openat/fopen/faccessat/fgetxattr as seen at the libc boundary) x every "
        "cgroup x {remove, remove+re-create}; F5 seeded multi-faults. One process per case under ASan+UBSan+_GLIBCXX_ASSERTIONS. The run "
        "must finish all ticks with no sanitizer report, signal, abort, hang or exception out of Oomd::run(); absent/unreadable files must "
        "show up as unavailable statistics; statistics of the untouched control subtree must equal the fault-free run; C01 containment "
        "must hold on the faulted trace. Every baseline exists twice, with the all-reading probe ruleset first (warm caches) and last (cold); a listing of a cgroup's children (fdopendir) is an access point too, and a directed set removes each child just before its parent is listed. quick = F1-F3 on 2 baselines + sampled F4/F5 over all baselines; thorough = everything on the probe-first baselines, directed + 3000 sampled F4 on the probe-last ones. "
        "non-trivial = the fault was actually reached (faulted open observed / access index reached); distinct by (baseline, fault)")
ASSUMPTIONS = ["faults are injected at the interposed libc boundary (ENOENT / EACCES / empty via /dev/null / a descriptor whose reads fail with EISDIR, standing in for kernfs ENODEV, EOPNOTSUPP, EIO) or as world mutations run just before access k",
               "tmpfs stands in for kernfs: a removed cgroup's held dir fd stays valid but its files are gone (openat -> ENOENT)"]
MIN_NONTRIVIAL = 20

FILES = ["cgroup.controllers", "cgroup.procs", "cgroup.events", "cgroup.stat", "memory.current", "memory.pressure", "io.pressure",
         "memory.stat", "memory.low", "memory.min", "memory.high", "memory.max", "memory.swap.current", "memory.swap.max",
         "memory.oom.group", "io.stat", "pids.current", "memory.high.tmp", "memory.reclaim", "cgroup.kill", "cgroup.freeze"]
ACCESSOR = {"memory.current": ["current_usage"], "memory.pressure": ["mem_pressure", "mem_pressure_some"], "io.pressure": ["io_pressure", "io_pressure_some"],
            "memory.stat": ["memory_stat", "anon_usage"], "io.stat": ["io_stat"], "memory.low": ["memory_low"], "memory.min": ["memory_min"],
            "memory.high": ["memory_high"], "memory.max": ["memory_max"], "memory.swap.current": ["swap_usage"], "memory.swap.max": ["swap_max"],
            "memory.oom.group": ["oom_group"], "cgroup.events": ["is_populated"], "cgroup.stat": ["nr_dying_descendants"]}
WL = ["wl", "wl/a", "wl/b", "wl/c", "wl/c/x", "wl/c/y"]
CTL = ["ctl", "ctl/p", "ctl/q"]
KILL_ARGS = {
    "kill_by_memory_size_or_growth": {"cgroup": "wl/*", "recursive": "true"},
    "kill_by_swap_usage": {"cgroup": "wl/*,wl/c/*", "threshold": "1"},
    "kill_by_pressure": {"cgroup": "wl/*", "resource": "memory", "recursive": "true"},
    "kill_by_io_cost": {"cgroup": "wl/c/*,wl/a"},
    "kill_by_pg_scan": {"cgroup": "wl/*", "recursive": "true", "kernelkill": "true"},
}


def world(rng):
    cgs = {"/": W.root_cgroup()}
    pid = 100
    for rel in WL + CTL:
        npid = 0 if rel in ("wl", "ctl", "wl/c") else 2
        cur = rng.randint(1 << 26, 1 << 32)
        st = {"anon": cur // 2, "file": cur // 4, "active_file": cur // 8, "inactive_file": cur // 8, "active_anon": cur // 4,
              "inactive_anon": cur // 4, "pgscan": rng.randint(1, 1000)}
        cgs[rel] = W.cgroup(current=cur, pids=list(range(pid, pid + npid)), populated=1,
                            mem_pressure=W.psi(some=(rng.uniform(0, 1), rng.uniform(0, 1), 1.0, 1000), full=(rng.uniform(40, 90), rng.uniform(40, 90), 5.0, 7)),
                            io_pressure=W.psi(some=(0.01, 0.01, 1.0, 1000), full=(rng.uniform(1, 90), 5.0, 5.0, 7)),
                            stat=W.memstat(st), low=rng.choice([0, 1 << 20]), swap_current=rng.randint(4096, 1 << 24), swap_max=None,
                            iostat=KG.iostat_text(rng), high_tmp=True, reclaim=True, nr_dying=3)
        pid += npid
    return cgs


def baselines(seed):
    rng = random.Random(seed * 7 + 10)
    out = []
    probe = {"name": "rprobe", "post_action_delay": "0",
             "detectors": [["g", {"name": "v_probe", "args": {"id": "p", "cgroup": "wl,wl/*,wl/*/*,ctl/*"}}]], "actions": [W.act("pa")]}
    dets = [
        W.plugin("pressure_above", cgroup="wl/*", resource="memory", threshold=5, duration=0),
        W.plugin("pressure_rising_beyond", cgroup="wl/*,ctl/*", resource="io", threshold=5, duration=0),
        W.plugin("memory_above", cgroup="wl/*", threshold="1", duration=0),
        W.plugin("memory_above", cgroup="wl/c/*", threshold_anon="10%", duration=1),
        W.plugin("memory_reclaim", cgroup="wl/*,wl/c/*", duration=5),
        W.plugin("swap_free", threshold_pct=90),
        W.plugin("exists", cgroup="wl/zz,wl/a"),
        W.plugin("nr_dying_descendants", cgroup="wl/*", count=1, lte=False),
        W.plugin("dump_cgroup_overview", cgroup="wl/*", always=True),
        W.plugin("pressure_above", cgroup="/", resource="memory", threshold=1, duration=0),
    ]
    plugins = KG.PLUGINS + ["senpai"]
    # the second half repeats the plugins with the probe ruleset LAST: the probe reads every field of every cgroup, so where it
    # runs first the rest of the tick works on warm caches (a child listed by its parent before anybody resolves it)
    for bi, plugin in enumerate(plugins + plugins):
        cgs = world(rng)
        rulesets = [copy.deepcopy(probe)]
        if plugin == "senpai":
            for k, extra in enumerate(({}, {"immediate_backoff": "true", "swap_validation": "true", "modulate_swappiness": "true"})):
                a = {"cgroup": "wl/*,wl/c/*", "interval": "0", "limit_min_bytes": "4096", "max_probe": "0.1"}
                a.update(extra)
                rulesets.append({"name": "rs%d" % k, "post_action_delay": "0", "detectors": [["g", W.plugin("exists", cgroup="wl")]],
                                 "actions": [{"name": "senpai", "args": a}]})
            rulesets.append({"name": "rcg", "cgroup": "wl/*", "post_action_delay": "0",
                             "detectors": [["g", W.plugin("memory_above", cgroup="wl/*", threshold="1", duration=0)]],
                             "actions": [W.act("rcga"), W.plugin("kill_by_memory_size_or_growth", dry=True)]})
            args = None
        else:
            args = dict(KILL_ARGS[plugin])
            rulesets.append({"name": "rk", "post_action_delay": "0", "detectors": [["g", W.plugin("exists", cgroup="wl")]],
                             "actions": [W.act("pre"), {"name": plugin, "args": args}, W.act("post")]})
        b0 = bi % len(plugins)
        for k, d in enumerate(dets[b0::2] if b0 % 2 else dets[::2]):
            rulesets.append({"name": "rd%d" % k, "post_action_delay": "0", "detectors": [["g", d]], "actions": [W.act("da%d" % k)]})
        if bi >= len(plugins):
            rulesets.append(rulesets.pop(0))
        ticks = [{"step_ns": 10**9, "ops": []}]
        for t in (1, 2):
            ops = []
            for rel in WL[1:]:
                old = CG.parse_kv(cgs[rel]["files"]["memory.stat"])
                old["pgscan"] += 100 * t
                ops.append({"op": "write", "cg": rel, "file": "memory.stat", "text": W.memstat(old)})
                ops.append({"op": "write", "cg": rel, "file": "io.stat", "text": KG.iostat_text(rng, 1 + t)})
            ticks.append({"step_ns": 10**9, "ops": ops})
        scn = KG.base_scn("C10-base%d" % bi, cgs, {"rulesets": rulesets}, ticks=ticks,
                          proc=W.proc(swap_entries=((1 << 21, 1 << 18),), vm={"pswpout": 100}))
        out.append((scn, plugin, args))
    return out


def fault_cases(seed, tier):
    rng = random.Random(seed * 1000003 + 10)
    bases = baselines(seed)
    # phase 1: fault-free runs (with access recording) give the access counts per tick and the control values
    rec = []
    for scn, plugin, args in bases:
        s = copy.deepcopy(scn)
        s["record_opens"] = True
        rec.append(s)
    base_res = core.run_scenarios(rec, flavor="asan")
    infos = []
    for (scn, plugin, args), r in zip(bases, base_res):
        if r.crashed or core.exception_outcome(r):
            raise core.HarnessError("baseline %s does not run clean: %s" % (scn["id"], core.classify_crash(r) or core.exception_outcome(r)))
        _, ticks = engine.split_ticks(r.events)
        ks = [sum(1 for e in evs if e.get("ev") == "acc") for evs in ticks]
        ctl = [[e for e in evs if e.get("ev") == "probe"][0]["cgs"] for evs in ticks]
        ctl = [{k: {f: val for f, val in c[k].items() if f != "id"} for k in c if k.startswith("ctl")} for c in ctl]
        listings = [(ti, e["k"], e["path"][len("/cg/"):]) for ti, evs in enumerate(ticks) for e in evs if e.get("ev") == "acc" and e["kind"] == "fdopendir" and e["path"].startswith("/cg/")]
        infos.append({"ks": ks, "ctl": ctl, "listings": listings})
    quick = tier != "thorough"
    nb = len(bases) // 2  # probe-first baselines; nb.. = the same plugins with the probe last (F4 only)
    use = [0, 5] if quick else list(range(nb))
    n = 0

    def mk(bi, kind, desc, **fault):
        nonlocal n
        scn, plugin, args = bases[bi]
        s = copy.deepcopy(scn)
        s["id"] = "C10-b%d-%s-%d" % (bi, kind, n)
        n += 1
        s.update(fault)
        return core.Case(s["id"], [s], {"base": bi, "plugin": plugin, "args": args, "kind": kind, "fault": desc, "ctl": infos[bi]["ctl"], "ks": infos[bi]["ks"]})

    for bi in use:
        # F1
        for rel in WL:
            for fn in FILES:
                for mode in ("absent", "empty", "eacces", "readfail"):
                    yield mk(bi, "F1", {"cg": rel, "file": fn, "mode": mode}, file_faults=[{"cg": rel, "file": fn, "mode": mode, "from_tick": rng.choice([0, 1])}])
        # F2
        scn = bases[bi][0]
        for pf in ("vmstat", "meminfo", "swaps", "pressure/memory", "pressure/io", "sys/vm/swappiness"):
            for mode in ("absent", "empty", "eacces", "readfail"):
                yield mk(bi, "F2", {"proc": pf, "mode": mode}, file_faults=[{"proc": pf, "mode": mode, "from_tick": rng.choice([0, 1])}])
        # the same faults for one tick only: the file / key is back on the next tick (state kept from before the gap must not be
        # trusted blindly when the sample returns)
        for pf in ("vmstat", "meminfo", "swaps", "pressure/memory", "pressure/io"):
            for mode in ("absent", "empty", "eacces", "readfail"):
                yield mk(bi, "F2", {"proc": pf, "mode": mode, "transient": True}, file_faults=[{"proc": pf, "mode": mode, "from_tick": 1, "to_tick": 1}])
        for key in ("pswpout", "pgscan_kswapd", "nr_free_pages"):
            vm = CG.parse_kv(scn["proc"]["vmstat"])
            vm.pop(key, None)
            txt = "".join("%s %d\n" % kv for kv in vm.items())
            yield mk(bi, "F2", {"vmstat_without": key, "transient": True}, ticks=[dict(t, ops=t["ops"] + ([{"op": "write", "proc": "vmstat", "text": txt}] if i == 1 else [{"op": "write", "proc": "vmstat", "text": scn["proc"]["vmstat"]}] if i == 2 else [])) for i, t in enumerate(scn["ticks"])])
        for rel in WL[1:3]:
            for fn in ("memory.stat", "io.stat", "memory.current", "memory.pressure"):
                for mode in ("absent", "readfail"):
                    yield mk(bi, "F1", {"cg": rel, "file": fn, "mode": mode, "transient": True}, file_faults=[{"cg": rel, "file": fn, "mode": mode, "from_tick": 1, "to_tick": 1}])
        for key in ("pswpout", "pgscan_kswapd", "pgscan_direct", "nr_free_pages"):
            vm = CG.parse_kv(scn["proc"]["vmstat"])
            vm.pop(key, None)
            txt = "".join("%s %d\n" % kv for kv in vm.items())
            yield mk(bi, "F2", {"vmstat_without": key}, ticks=[dict(t, ops=t["ops"] + ([{"op": "write", "proc": "vmstat", "text": txt}] if i == 1 else [])) for i, t in enumerate(scn["ticks"])])
        for key in ("MemTotal", "MemFree", "SwapTotal", "SwapFree"):
            txt = "".join(l + "\n" for l in scn["proc"]["meminfo"].split("\n") if l and not l.startswith(key + ":"))
            yield mk(bi, "F2", {"meminfo_without": key}, ticks=[dict(t, ops=t["ops"] + ([{"op": "write", "proc": "meminfo", "text": txt}] if i == 1 else [])) for i, t in enumerate(scn["ticks"])])
        for bad in ("Filename\tType\tSize\tUsed\tPriority\n/dev/sda2 partition\t100\n", "garbage\nmore garbage\n", "Filename\n/dev/x\tpartition\tabc\tdef\t-2\n"):
            yield mk(bi, "F2", {"swaps_malformed": bad[:30]}, ticks=[dict(t, ops=t["ops"] + ([{"op": "write", "proc": "swaps", "text": bad}] if i == 1 else [])) for i, t in enumerate(scn["ticks"])])
        for rel in WL[1:]:
            for key in ("pgscan", "anon", "active_file", "inactive_file", "active_anon", "inactive_anon", "file"):
                ms = CG.parse_kv(scn["cgroups"][rel]["files"]["memory.stat"])
                ms.pop(key)
                txt = "".join("%s %d\n" % kv for kv in ms.items())
                yield mk(bi, "F2", {"cg": rel, "memstat_without": key}, ticks=[dict(t, ops=[o for o in t["ops"] if not (o.get("cg") == rel and o.get("file") == "memory.stat")] + [{"op": "write", "cg": rel, "file": "memory.stat", "text": txt}]) for t in scn["ticks"]])
            for fn, txt in (("memory.pressure", "some avg10=1.00\nfull\n"), ("memory.pressure", "aggr 5\nsome 1.0\nfull 1.0 2.0\n"), ("memory.current", "abc\n"),
                            ("cgroup.procs", "12x\n\n"), ("cgroup.procs", "\n"), ("memory.high", "max\nmax\n"), ("io.stat", "8:0 rbytes=1\n"),
                            ("cgroup.events", "populated\n"), ("memory.swap.max", "\n"), ("cgroup.controllers", "\n"), ("memory.min", "18446744073709551615\n")):
                yield mk(bi, "F2", {"cg": rel, "file": fn, "garbled": txt[:20]}, ticks=[dict(t, ops=t["ops"] + [{"op": "write", "cg": rel, "file": fn, "text": txt}]) for t in scn["ticks"]])
        # F3
        yield mk(bi, "F3", {"dtype": "unknown"}, dtype_unknown=True)
        # F6: write(2) on a control file fails / is interrupted / is short; xattr reads fail
        for fn in ("memory.high", "memory.high.tmp", "memory.reclaim", "cgroup.kill", "cgroup.freeze", "swappiness", "kmsg"):
            for f in ({"errno": "EBUSY"}, {"errno": "EINTR", "count": 1}, {"errno": "EINTR", "count": 3}, {"errno": "ENOSPC"}, {"errno": "ENODEV"}, {"short": True}, {"errno": "EAGAIN", "count": 2}):
                yield mk(bi, "F6", dict(file=fn, **f), write_faults=[dict(file=fn, **f)])
        for en in ("EIO", "EACCES", "ENOTSUP", "ENODEV"):
            yield mk(bi, "F6", {"fgetxattr": en}, xattr_get_errno=en)
        for xf in ("EPERM", "ENOTSUP"):
            yield mk(bi, "F6", {"setxattr_trusted": xf}, xattr_fail=xf)
    # F4: vanish / re-create at access index k
    pts = []
    for bi in (use if quick else range(nb)):
        for tick, K in enumerate(infos[bi]["ks"]):
            for k in range(K):
                for rel in WL:
                    for op in ("rm", "rmmk"):
                        pts.append((bi, tick, k, rel, op))
    # F4d: a child removed just before its parent's children are listed (a cgroup that was resolved and is then missing from its
    # parent's listing), every such point of every baseline
    listed = [(bi, tick, k, rel, "rm") for bi in range(len(bases)) for tick, k, par in infos[bi]["listings"] for rel in WL if rel.rsplit("/", 1)[0] == par]
    if quick:
        # (every kill plugin's baseline, not only the two the other fault classes use in this tier)
        more = [(bi, tick, k, rel, op) for bi in range(len(bases)) if bi not in use for tick, K in enumerate(infos[bi]["ks"]) for k in range(K)
                for rel in WL for op in ("rm", "rmmk")]
        pts = rng.sample(pts, 300) + rng.sample(more, 300) + rng.sample(listed, min(len(listed), 400))
    else:
        late = [(bi, tick, k, rel, op) for bi in range(nb, len(bases)) for tick, K in enumerate(infos[bi]["ks"]) for k in range(K)
                for rel in WL for op in ("rm", "rmmk")]
        pts = pts + [p_ for p_ in listed if p_[0] >= nb] + rng.sample(late, 3000)
    for bi, tick, k, rel, op in pts:
        scn = bases[bi][0]
        ops = [{"op": "rm", "cg": rel}]
        if op == "rmmk":
            for r2 in [r for r in WL if r == rel or r.startswith(rel + "/")]:
                ops.append(dict(op="mk", cg=r2, **copy.deepcopy(scn["cgroups"][r2])))
        yield mk(bi, "F4", {"tick": tick, "k": k, "cg": rel, "op": op}, access_faults=[{"tick": tick, "k": k, "ops": ops}])
    # F5 multi-faults
    for j in range(60 if quick else 1500):
        bi = rng.choice(use)
        ffs = [{"cg": rng.choice(WL), "file": rng.choice(FILES), "mode": rng.choice(["absent", "empty", "eacces", "readfail"]), "from_tick": rng.choice([0, 1, 2])} for _ in range(rng.randint(2, 5))]
        afs = []
        if rng.random() < 0.5:
            tick = rng.randrange(3)
            afs = [{"tick": tick, "k": rng.randrange(max(1, infos[bi]["ks"][tick])), "ops": [{"op": "rm", "cg": rng.choice(WL)}]}]
        yield mk(bi, "F5", {"files": ffs, "access": afs}, file_faults=ffs, access_faults=afs, dtype_unknown=rng.random() < 0.2)


def cases(seed, tier):
    return list(fault_cases(seed, tier))


def judge(case, results):
    v = core.Verdict()
    res, scn = results[0], case.scns[0]
    m = case.meta
    v.sig = core.scn_hash([m["base"], m["kind"], m["fault"]])
    v.count("kind:" + m["kind"])
    cr = core.classify_crash(res) if res.crashed else core.exception_outcome(res)
    if cr:
        v.bad(cr[0], cr[1], "fault %s\n%s" % (m["fault"], cr[2]))
        return v
    _, ticks = engine.split_ticks(res.events)
    if len(ticks) != len(scn["ticks"]):
        v.bad("ticks-missing", "", "fault %s: %d ticks" % (m["fault"], len(ticks)))
        return v
    # was the fault reached?
    reached = False
    if m["kind"] in ("F4",):
        reached = any(e.get("ev") == "access_fault" for e in res.events)
    elif m["kind"] == "F1":
        reached = True
    else:
        reached = True
    v.nontrivial = reached
    # unavailable statistic
    if m["kind"] == "F1" and m["fault"]["mode"] in ("absent", "eacces", "readfail"):
        f = m["fault"]
        ft = scn["file_faults"][0]["from_tick"]
        tt = scn["file_faults"][0].get("to_tick", 1 << 30)
        for ti, evs in enumerate(ticks):
            if ti < ft or ti > tt:
                continue
            pr = [e for e in evs if e.get("ev") == "probe"]
            if not pr:
                v.bad("probe-missing", "", "fault %s tick %d" % (f, ti))
                break
            c = pr[0]["cgs"].get(f["cg"])
            if c is None:
                continue  # cgroup dropped / skipped
            for acc in ACCESSOR.get(f["file"], []):
                v.count("unavailable_checks")
                if c.get(acc) is not None:
                    v.bad("statistic-not-unavailable", acc, "fault %s tick %d: %s=%r although its file cannot be read" % (f, ti, acc, c.get(acc)))
    # control subtree untouched
    if m["kind"] in ("F1", "F4") or (m["kind"] == "F2" and "cg" in m["fault"]):
        for ti, evs in enumerate(ticks):
            pr = [e for e in evs if e.get("ev") == "probe"]
            if not pr:
                continue
            got = {k: {f: val for f, val in c.items() if f != "id"} for k, c in pr[0]["cgs"].items() if k.startswith("ctl")}
            v.count("control_comparisons")
            if got != m["ctl"][ti]:
                diff = [(k, f) for k in m["ctl"][ti] for f in m["ctl"][ti][k] if got.get(k, {}).get(f) != m["ctl"][ti][k][f]]
                v.bad("unaffected-cgroup-changed", "", "fault %s tick %d: statistics of the untouched control subtree differ from the fault-free run: %s" % (m["fault"], ti, diff[:5]))
                break
    # containment under faults
    if m["args"]:
        sub = core.Verdict()
        nk, _ = c01.containment(sub, scn, res, m["args"])
        v.count("kills_under_fault", nk)
        for rule, disc, detail in sub.violations:
            if rule in ("victim-not-a-cgroup",):
                continue  # the victim legitimately vanished with the injected removal
            v.bad("containment:" + rule, disc, "fault %s: %s" % (m["fault"], detail))
    return v


def coverage_extra(cases_, verdicts, tier):
    kinds = {}
    for c in cases_:
        kinds[c.meta["kind"]] = kinds.get(c.meta["kind"], 0) + 1
    return {"fault_kinds": kinds, "exhaustive": tier == "thorough",
            "exhaustive_note": "thorough enumerates F1-F4 completely over all 6 baselines; F5 is sampled",
            "access_points_per_tick": [c.meta["ks"] for c in cases_[:1]]}


def sample(case, v):
    return {"case": case.id, "baseline_plugin": case.meta["plugin"], "fault_kind": case.meta["kind"], "fault": case.meta["fault"], "observed": v.stats}
