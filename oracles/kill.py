"""Reference for victim selection (C03, C09): documented ranking policies in exact arithmetic and the
documented candidate walk (prefer > normal > avoid, recursive descent one level at a time, never below
memory.oom.group=1, skip unpopulated, fall back in rank order)."""
import math
from fractions import Fraction as F

from oracles import cgroup as CG
from oracles import path as P

KILL_PLUGINS = ["kill_by_memory_size_or_growth", "kill_by_swap_usage", "kill_by_pressure", "kill_by_io_cost", "kill_by_pg_scan"]


def parse_bool(s, default=False):
    if s is None:
        return default
    return s in ("true", "True", "1")


def exact_size_or_percent(s, total):
    """documented reading of a threshold: N% of total, bare number = megabytes, else K/M/G/T components"""
    s = s.strip()
    if s.endswith("%"):
        return F(total) * F(int(s[:-1])) / 100
    try:
        return F(int(s)) * (1 << 20)
    except ValueError:
        pass
    mult = {"k": 1 << 10, "m": 1 << 20, "g": 1 << 30, "t": 1 << 40}
    tot = F(0)
    num = ""
    for ch in s.lower().replace(" ", ""):
        if ch in mult:
            tot += F(num) * mult[ch]
            num = ""
        else:
            num += ch
    if num:
        tot += F(num)
    return tot


class Ranker:
    """keys(view, temporal, siblings) -> {rel: key}  (missing rel = filtered out by the plugin);
    ordering = (preference desc, key desc).  `eps` is the relative band inside which two keys count as tied."""

    def __init__(self, plugin, args, view):
        self.plugin = plugin
        self.args = args
        self.eps = 1e-6

    def keys(self, view, temporal, sibs):
        a = self.args
        out = {}
        if self.plugin == "kill_by_swap_usage":
            mi = view.meminfo
            swap_total = mi.get("SwapTotal", 0)
            mem_total = mi.get("MemTotal", 0)
            thr = exact_size_or_percent(a.get("threshold", "1"), swap_total) if "threshold" in a else F(1)
            biased = parse_bool(a.get("biased_swap_kill"))
            for s in sibs:
                u = view.swap_usage(s) or 0
                if not (u > thr):
                    continue
                if biased:
                    prot = view.protection(s)
                    if prot is not None and mem_total > 0:
                        ratio = F(swap_total, mem_total)
                        # the ratio is kept in float32 and protection goes through a double for nested cgroups
                        out[s] = Tol(max(F(0), F(u) - ratio * math.floor(prot)), ratio * math.floor(prot) * F(1, 10**6) + 2, fuzzy_equal=True)
                    else:
                        out[s] = Tol(u, 0)
                else:
                    out[s] = Tol(u, 0)  # plain swap usage: integers, compared exactly
            return out
        if self.plugin == "kill_by_pressure":
            res = a.get("resource", "memory")
            for s in sibs:
                p = view.psi(s, res, "full")
                out[s] = Tol((F(p[0]) + F(p[1])) / 2 if p else 0, F(1, 1000))  # float32 arithmetic on 2-decimal inputs
            return out
        if self.plugin == "kill_by_io_cost":
            for s in sibs:
                cum = view.io_cost_cum(s)
                out[s] = Tol(temporal.get(s, {}).get("io_cost_rate") or 0, (abs(cum) if cum is not None else 0) * F(1, 10**9) + F(1, 10**6))
            return out
        if self.plugin == "kill_by_pg_scan":
            for s in sibs:
                r = temporal.get(s, {}).get("pg_scan_rate")
                if r is not None and r > 0:
                    out[s] = Tol(r, 0)  # integer page counts
            return out
        if self.plugin == "kill_by_memory_size_or_growth":
            size_thr = int(a.get("size_threshold", "50"))
            pctl = int(a.get("growing_size_percentile", "80"))
            mgr = F(a.get("min_growth_ratio", "1.25"))
            total = sum((view.current(s) or 0) for s in sibs)
            eff = {s: (view.effective_usage(s) if view.effective_usage(s) is not None else F(0)) for s in sibs}
            gthr = F(0)
            if sibs and pctl > 0:
                nth = math.ceil(F(len(sibs)) * (100 - pctl) / 100) - 1
                gthr = sorted(eff.values(), reverse=True)[nth]
            self.amb = set()
            for s in sibs:
                cur = view.current(s) or 0
                size_ok = F(cur) * 100 >= F(total) * size_thr
                if F(cur) * 100 != F(total) * size_thr and abs(F(cur) * 100 - F(total) * size_thr) <= 100 + F(total) * size_thr / 10**9:
                    self.amb.add(s)  # within rounding of the threshold but not exactly on it
                avg = temporal.get(s, {}).get("average_usage")
                growth = F(0)
                if avg is not None and math.floor(avg) != 0:
                    growth = F(cur) / math.floor(avg)
                if avg is not None and math.floor(avg) != 0 and growth != mgr and abs(growth - mgr) <= mgr / 10**5:
                    self.amb.add(s)  # exactly on the configured ratio is judged: ">= min_growth_ratio" includes equality
                grow_ok = growth >= mgr and eff[s] >= gthr
                # effective usage: integers, except that nested protection goes through a double (relative 1e-12);
                # growth ratio is a float32
                prot = view.protection(s)
                etol = (abs(prot) * F(1, 10**11) + 2) if prot else F(0)
                e_ = Tol(eff[s], etol, fuzzy_equal=True)
                out[s] = (e_ if size_ok else Tol(0), Tol(growth, growth * F(1, 10**6)) if grow_ok else Tol(0), e_)
            return out
        raise ValueError(self.plugin)


class Tol:
    """a key component with an absolute tolerance: differences within it are undecidable from outside
    (the implementation rounds there), exactly equal values fall through to the next component"""

    def __init__(self, v, tol=0, fuzzy_equal=False):
        self.v = F(v)
        self.tol = F(tol)
        # fuzzy_equal: even two equal reference values may differ in the implementation (each went through its own rounding,
        # e.g. a protection share computed in double), so equality does not decide anything either
        self.fuzzy_equal = fuzzy_equal and self.tol > 0

    def __float__(self):
        return float(self.v)


def _as_tol(x):
    return x if isinstance(x, Tol) else Tol(x, 0)


def cmp_keys(a, b, eps=None):
    if not isinstance(a, tuple):
        a, b = (a,), (b,)
    for x, y in zip(a, b):
        x, y = _as_tol(x), _as_tol(y)
        if x.v == y.v:
            if x.fuzzy_equal or y.fuzzy_equal:
                return 0
            continue
        if abs(x.v - y.v) <= max(x.tol, y.tol):
            return 0  # close but not identical: either order is acceptable -> tie for the whole key
        return 1 if x.v > y.v else -1
    return 0


def tie_groups(keys, prefs, eps=1e-6):
    """-> list of groups (lists of rel), best first; members of a group are tied within eps"""
    import functools

    def cmp(i, j):
        if prefs[i] != prefs[j]:
            return 1 if prefs[i] > prefs[j] else -1
        return cmp_keys(keys[i], keys[j])

    items = sorted(keys, key=functools.cmp_to_key(cmp), reverse=True)
    groups = []
    for rel in items:
        if groups and cmp(groups[-1][-1], rel) == 0:
            groups[-1].append(rel)
        else:
            groups.append([rel])
    return groups


class Walk:
    """enumerates every attempt sequence the documented walk allows.  Candidates are ordered by the strict
    partial order "higher preference, or same preference and a key that is greater beyond the tie band";
    any linear extension of it is acceptable (ties => alternatives)."""

    def __init__(self, view, temporal, plugin, args, outcome, cap=3000):
        self.v = view
        self.t = temporal
        self.plugin = plugin
        self.args = args
        self.recursive = parse_bool(args.get("recursive"))
        self.outcome = outcome  # rel -> True if a kill attempt on it signals >= 1 process
        self.cap = cap
        self.overflow = False
        self.ambiguous = False
        self._memo = {}

    def keys_prefs(self, sibs):
        rk = Ranker(self.plugin, self.args, self.v)
        keys = rk.keys(self.v, self.t, sibs)
        if getattr(rk, "amb", None) and any(s in rk.amb for s in sibs):
            self.ambiguous = True
        prefs = {s: self.v.pref(s) for s in keys}
        return keys, prefs

    @staticmethod
    def gt(keys, prefs, i, j):
        if prefs[i] != prefs[j]:
            return prefs[i] > prefs[j]
        return cmp_keys(keys[i], keys[j]) > 0

    def maximal(self, keys, prefs, remaining):
        return [c for c in remaining if not any(self.gt(keys, prefs, d, c) for d in remaining if d != c)]

    def first_choices(self, sibs):
        keys, prefs = self.keys_prefs(sibs)
        return sorted(self.maximal(keys, prefs, list(keys))), sorted(keys)

    def seqs_for_siblings(self, sibs):
        keys, prefs = self.keys_prefs(sibs)
        results = []
        budget = [self.cap * 4]

        def rec(remaining, prefix):
            if len(results) > self.cap or budget[0] <= 0:
                self.overflow = True
                return
            budget[0] -= 1
            if not remaining:
                results.append((prefix, False))
                return
            for c in self.maximal(keys, prefs, remaining):
                rest = [x for x in remaining if x != c]
                for seq, ok in self.expand(c):
                    if ok:
                        results.append((prefix + seq, True))
                    else:
                        rec(rest, prefix + seq)

        rec(sorted(keys), [])
        seen, out = set(), []
        for a in results:
            k = (tuple(a[0]), a[1])
            if k not in seen:
                seen.add(k)
                out.append(a)
        return out

    def expand(self, cand):
        if cand in self._memo:
            return self._memo[cand]
        v = self.v
        r = None
        if self.recursive and not (v.oom_group(cand) or False):
            kids = v.w.children(cand)
            if kids:
                r = self.seqs_for_siblings(kids)
        if r is None:
            if v.populated(cand) is False:
                r = [([], False)]
            else:
                r = [([cand], self.outcome(cand))]
        self._memo[cand] = r
        return r

    def sequences(self, roots):
        return self.seqs_for_siblings(roots)


def victim_eligible(victim, patterns, dirs, recursive):
    roots = P.resolve_many(patterns, dirs)
    if victim in roots:
        return True
    if recursive:
        return any(P.is_desc_or_self(victim, r) for r in roots)
    return False
