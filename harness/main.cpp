// vsim <mode> [args...] - multi-mode verification driver linking the real oomd objects.
#include <cstdio>
#include <cstring>
#include <map>
#include <string>

#include "vh.h"

namespace vh {
static std::map<std::string, DrvFn>& drivers() {
  static std::map<std::string, DrvFn> d;
  return d;
}
void register_driver(const char* name, DrvFn fn) {
  drivers()[name] = fn;
}
} // namespace vh

int main(int argc, char** argv) {
  if (argc < 2 || !vh::drivers().count(argv[1])) {
    fprintf(stderr, "usage: vsim <mode> ...; modes:");
    for (auto& kv : vh::drivers()) {
      fprintf(stderr, " %s", kv.first.c_str());
    }
    fprintf(stderr, "\n");
    return 2;
  }
  return vh::drivers()[argv[1]](argc - 2, argv + 2);
}
