// libc-boundary interposition layer.  These definitions live in the harness
// executable, so calls made from the real oomd objects (and from libstdc++.so on
// their behalf) resolve here first; each forwards to the next definition in
// lookup order (the sanitizer's interceptor, then libc) unless the scenario says
// otherwise.  Every call can be an *event* (monitor) and a *fault point*.
#include <cxxabi.h>
#include <dirent.h>
#include <execinfo.h>
#include <dlfcn.h>
#include <poll.h>
#include <errno.h>
#include <fcntl.h>
#include <pthread.h>
#include <signal.h>
#include <stdarg.h>
#include <stdio.h>
#include <string.h>
#include <sys/stat.h>
#include <sys/syscall.h>
#include <sys/types.h>
#include <sys/xattr.h>
#include <time.h>
#include <unistd.h>

#include <algorithm>
#include <atomic>
#include <type_traits>
#include <sstream>

#include "vh.h"

namespace vh {
thread_local int t_bypass = 0;
Sim g;
void (*g_tick_hook)(int, const Json::Value&) = nullptr;
std::atomic<unsigned> g_yield_ppm{0};

static bool starts_with(const std::string& s, const std::string& p) {
  return s.size() >= p.size() && s.compare(0, p.size(), p) == 0;
}

// Path of an fd, through the kernel (not the interposers).
std::string fd_path(int fd) {
  char lnk[64], buf[4096];
  snprintf(lnk, sizeof lnk, "/proc/self/fd/%d", fd);
  ssize_t n = ::readlink(lnk, buf, sizeof buf - 1);
  if (n <= 0) {
    return "";
  }
  buf[n] = 0;
  std::string s(buf);
  const std::string del = " (deleted)";
  if (s.size() > del.size() && s.compare(s.size() - del.size(), del.size(), del) == 0) {
    s.erase(s.size() - del.size());
  }
  return s;
}

static std::string rel_to_root(const std::string& p) {
  if (!g.root.empty() && starts_with(p, g.root)) {
    return p.substr(g.root.size());
  }
  return p;
}

static bool active() {
  return g.armed && t_bypass == 0;
}

// /proc/<x> -> <scratch>/proc/<x>
static const char* redirect(const char* path, std::string& store) {
  if (!path || g.procroot.empty() || t_bypass) {
    return path;
  }
  if (strncmp(path, "/proc/", 6) == 0 && strncmp(path, "/proc/self", 10) != 0) {
    store = g.procroot + (path + 5);
    return store.c_str();
  }
  return path;
}

static std::string resolve_at(int dirfd, const char* name) {
  if (!name) {
    return "";
  }
  if (name[0] == '/') {
    return name;
  }
  if (dirfd == AT_FDCWD) {
    return std::string("./") + name;
  }
  return fd_path(dirfd) + "/" + name;
}

// A file access: counts the access index k inside the tick, fires access faults
// (world mutations scripted "just before access k").
static void on_access(const char* kind, const std::string& path) {
  if (!active()) {
    return;
  }
  int k = g.access_k++;
  for (auto& af : g.access_faults) {
    if (!af.done && af.tick == g.tick && af.k == k) {
      af.done = true;
      Json::Value e;
      e["ev"] = "access_fault";
      e["k"] = k;
      e["at"] = rel_to_root(path);
      e["ops"] = af.ops;
      ev(e);
      apply_ops(af.ops);
    }
  }
  if (g.record_opens) {
    Json::Value e;
    e["ev"] = "acc";
    e["kind"] = kind;
    e["k"] = k;
    e["path"] = rel_to_root(path);
    ev(e);
  }
}

// returns: 0 none, 1 absent, 2 empty, 3 eacces, 4 readfail, 5 emfile (opens only)
static int file_fault(const std::string& path) {
  if (!active()) {
    return 0;
  }
  for (const auto& ff : g.file_faults) {
    if (g.tick >= ff.from_tick && g.tick <= ff.to_tick && ff.path == path) {
      if (ff.mode == "absent") {
        return 1;
      }
      if (ff.mode == "empty") {
        return 2;
      }
      if (ff.mode == "eacces") {
        return 3;
      }
      if (ff.mode == "emfile") {
        return 5; // the open fails although the file or directory is there (EMFILE: says nothing about the cgroup)
      }
      if (ff.mode == "readfail") {
        return 4; // the open succeeds, every read(2) on the descriptor fails (EISDIR): kernfs ENODEV / EOPNOTSUPP / EIO stand-in
      }
    }
  }
  return 0;
}

static std::string base_name(const std::string& p) {
  auto pos = p.rfind('/');
  return pos == std::string::npos ? p : p.substr(pos + 1);
}

static void apply_pending_dead(const std::string& dirpath) {
  // dirpath: absolute path of the cgroup directory whose cgroup.procs is opened
  if (!starts_with(dirpath, g.cgroot)) {
    return;
  }
  std::string rel = dirpath.size() > g.cgroot.size() ? dirpath.substr(g.cgroot.size() + 1) : "";
  auto it = g.pending_dead.find(rel);
  if (it == g.pending_dead.end() || it->second.empty()) {
    return;
  }
  Bypass b;
  std::set<long> drop;
  for (auto pit = it->second.begin(); pit != it->second.end();) {
    long pid = *pit;
    auto l = g.linger.find(pid);
    if (l != g.linger.end() && l->second > 0) {
      l->second--;
      ++pit;
    } else {
      drop.insert(pid);
      pit = it->second.erase(pit);
    }
  }
  if (drop.empty()) {
    return;
  }
  bool ok = false;
  std::string text = read_file(dirpath + "/cgroup.procs", &ok);
  if (!ok) {
    return;
  }
  std::istringstream is(text);
  std::string line, out;
  while (std::getline(is, line)) {
    char* end = nullptr;
    long v = strtol(line.c_str(), &end, 10);
    if (end != line.c_str() && drop.count(v)) {
      continue;
    }
    out += line + "\n";
  }
  write_file(dirpath + "/cgroup.procs", out);
  g.procs_dirty.insert(rel);
}

static bool interesting_name(const std::string& n) {
  return n == "cgroup.procs" || n == "cgroup.kill" || n == "cgroup.freeze" ||
      n == "memory.high" || n == "memory.high.tmp" || n == "memory.reclaim";
}

// the cgroup's manager removes it (leaf only: rmdir of a cgroup with children fails)
static void vanish_cgroup(const std::string& dir) {
  Bypass b;
  DIR* d = ::opendir(dir.c_str());
  if (!d) {
    return;
  }
  bool leaf = true;
  while (struct dirent* de = ::readdir(d)) {
    struct stat st;
    std::string n = de->d_name;
    if (n != "." && n != ".." && ::stat((dir + "/" + n).c_str(), &st) == 0 && S_ISDIR(st.st_mode)) {
      leaf = false;
    }
  }
  ::closedir(d);
  if (!leaf) {
    return;
  }
  Json::Value e, ops(Json::arrayValue), op;
  op["op"] = "rm";
  if (dir.size() <= g.cgroot.size() + 1 || !starts_with(dir, g.cgroot + "/")) {
    return;
  }
  op["cg"] = dir.substr(g.cgroot.size() + 1);
  ops.append(op);
  e["ev"] = "vanish";
  e["cg"] = op["cg"];
  ev(e);
  apply_ops(ops);
}

} // namespace vh

using namespace vh;
template <typename F> using fnptr = F*;

// function-local static: initialised once, thread-safely (the threaded drivers run under TSan)
#define REALFN(type, name) \
  typedef std::remove_pointer_t<type>* real_fn_t; \
  static real_fn_t const real = (real_fn_t)dlsym(RTLD_NEXT, name);

extern "C" {

// ---------------------------------------------------------------- signals
int kill(pid_t pid, int sig) {
  REALFN(fnptr<int (pid_t, int)>, "kill");
  if (!active()) {
    return real(pid, sig);
  }
  int ret = 0, err = 0;
  std::string res = g.kill_default;
  auto it = g.kill_result.find(pid);
  if (it != g.kill_result.end()) {
    res = it->second;
  }
  if (res == "ESRCH") {
    ret = -1;
    err = ESRCH;
  } else if (res == "EPERM") {
    ret = -1;
    err = EPERM;
  }
  auto pc = g.pid_cg.find(pid);
  if (pid <= 0 || pc == g.pid_cg.end()) {
    // unknown pid: nothing to remove; never forwarded to the kernel
    if (pc == g.pid_cg.end() && pid > 0 && ret == 0) {
      ret = -1;
      err = ESRCH;
    }
  } else if (ret == 0) {
    g.pending_dead[pc->second].insert(pid);
  }
  bool vanish = false;
  if (ret == 0 && pid > 0 && pc != g.pid_cg.end() && g.vanish_after_kill) {
    // last own process of a leaf cgroup signalled: its manager removes the (transient) cgroup at once
    size_t own = 0;
    for (const auto& kv : g.pid_cg) {
      own += kv.second == pc->second;
    }
    vanish = own == g.pending_dead[pc->second].size();
  }
  Json::Value e;
  e["ev"] = "kill";
  e["pid"] = (Json::Int64)pid;
  e["sig"] = sig;
  e["ret"] = ret;
  if (err) {
    e["errno"] = err;
  }
  if (pc != g.pid_cg.end()) {
    e["cg"] = pc->second;
  }
  ev(e);
  if (vanish) {
    vanish_cgroup(cg_abs(pc->second));
  }
  errno = err;
  return ret;
}

int pthread_kill(pthread_t th, int sig) {
  REALFN(fnptr<int (pthread_t, int)>, "pthread_kill");
  if (g.armed && (sig == SIGTERM || sig == SIGINT) && pthread_equal(th, pthread_self())) {
    return 0; // Oomd::run re-raises the signal it was "sent" by the driver
  }
  return real(th, sig);
}

int sigtimedwait(const sigset_t* set, siginfo_t* info, const struct timespec* timeout) {
  REALFN(fnptr<int (const sigset_t*, siginfo_t*, const struct timespec*)>, "sigtimedwait");
  if (!g.armed || t_bypass) {
    return real(set, info, timeout);
  }
  int i = g.sigwait_calls++;
  if (i > 0) {
    Json::Value e;
    e["ev"] = "tick_end";
    ev(e);
  }
  if (i >= g.nticks) {
    flush_trace();
    return SIGTERM;
  }
  const Json::Value& tk = g.scn["ticks"][i];
  {
    Bypass b;
    if (tk.isMember("ops")) {
      apply_ops(tk["ops"]);
    }
    // keep cgroup.events consistent with kills performed by oomd
    if (!g.procs_dirty.empty() && g.scn.get("auto_populated", true).asBool()) {
      std::set<std::string> todo;
      for (auto rel : g.procs_dirty) {
        while (true) {
          todo.insert(rel);
          auto pos = rel.rfind('/');
          if (rel.empty()) {
            break;
          }
          rel = pos == std::string::npos ? "" : rel.substr(0, pos);
        }
      }
      for (const auto& rel : todo) {
        // populated iff any pid listed in the subtree
        std::string dir = cg_abs(rel);
        bool ok = false;
        std::string evs = read_file(dir + "/cgroup.events", &ok);
        if (!ok) {
          continue;
        }
        std::function<bool(const std::string&)> any = [&](const std::string& d) -> bool {
          bool ok2 = false;
          std::string t = read_file(d + "/cgroup.procs", &ok2);
          if (ok2 && t.find_first_of("0123456789") != std::string::npos) {
            return true;
          }
          DIR* dp = opendir(d.c_str());
          if (!dp) {
            return false;
          }
          bool r = false;
          while (auto* de = ::readdir(dp)) {
            if (de->d_name[0] == '.') {
              continue;
            }
            struct stat st;
            std::string c = d + "/" + de->d_name;
            if (::stat(c.c_str(), &st) == 0 && S_ISDIR(st.st_mode) && any(c)) {
              r = true;
              break;
            }
          }
          closedir(dp);
          return r;
        };
        bool pop = any(dir);
        write_file(dir + "/cgroup.events", std::string("populated ") + (pop ? "1" : "0") + "\nfrozen 0\n");
      }
      g.procs_dirty.clear();
    }
  }
  g.tick = i;
  g.access_k = 0;
  int64_t step = tk.get("step_ns", (Json::Int64)1000000000LL).asInt64();
  g.now_ns += step;
  Json::Value e;
  e["ev"] = "tick";
  e["i"] = i;
  ev(e);
  if (g_tick_hook) {
    g_tick_hook(i, tk);
  }
  if ((i & 7) == 7) {
    flush_trace();
  }
  errno = EAGAIN;
  return -1;
}

// ---------------------------------------------------------------- clock
int clock_gettime(clockid_t clk, struct timespec* ts) {
  REALFN(fnptr<int (clockid_t, struct timespec*)>, "clock_gettime");
  if (g.vclock && clk == CLOCK_MONOTONIC) {
    ts->tv_sec = g.now_ns / 1000000000LL;
    ts->tv_nsec = g.now_ns % 1000000000LL;
    return 0;
  }
  return real(clk, ts);
}

int nanosleep(const struct timespec* req, struct timespec* rem) {
  REALFN(fnptr<int (const struct timespec*, struct timespec*)>, "nanosleep");
  if (g.vclock && g.armed && t_bypass == 0) {
    int64_t d = req->tv_sec * 1000000000LL + req->tv_nsec;
    g.now_ns += d;
    Json::Value e;
    e["ev"] = "sleep";
    e["ns"] = (Json::Int64)d;
    ev(e);
    return 0;
  }
  return real(req, rem);
}

int clock_nanosleep(clockid_t clk, int flags, const struct timespec* req, struct timespec* rem) {
  REALFN(fnptr<int (clockid_t, int, const struct timespec*, struct timespec*)>, "clock_nanosleep");
  if (g.vclock && g.armed && t_bypass == 0) {
    int64_t d = req->tv_sec * 1000000000LL + req->tv_nsec;
    if (flags & TIMER_ABSTIME) {
      d = clk == CLOCK_MONOTONIC ? std::max<int64_t>(0, d - g.now_ns) : 0;
    }
    g.now_ns += d;
    Json::Value e;
    e["ev"] = "sleep";
    e["ns"] = (Json::Int64)d;
    ev(e);
    return 0;
  }
  return real(clk, flags, req, rem);
}

// ---------------------------------------------------------------- syscall()
__attribute__((no_sanitize("address", "undefined"))) long syscall(long n, ...) {
  REALFN(fnptr<long (long, ...)>, "syscall");
  va_list ap;
  va_start(ap, n);
  long a[6];
  for (auto& x : a) {
    x = va_arg(ap, long);
  }
  va_end(ap);
  if (active() && (n == SYS_pidfd_open || n == 448 /* process_mrelease */)) {
    Json::Value e;
    e["ev"] = n == SYS_pidfd_open ? "pidfd_open" : "process_mrelease";
    e["arg"] = (Json::Int64)a[0];
    ev(e);
    if (n == SYS_pidfd_open) {
      Bypass b;
      return ::open("/dev/null", O_RDONLY | O_CLOEXEC);
    }
    return 0;
  }
  return real(n, a[0], a[1], a[2], a[3], a[4], a[5]);
}

// ---------------------------------------------------------------- xattrs (emulated under the scratch root)
static bool under_root(const char* path) {
  return path && !g.root.empty() && starts_with(path, g.root);
}

int setxattr(const char* path, const char* name, const void* value, size_t size, int flags) {
  REALFN(fnptr<int (const char*, const char*, const void*, size_t, int)>, "setxattr");
  if (!under_root(path)) {
    return real(path, name, value, size, flags);
  }
  int ret = 0, err = 0;
  uint64_t ino;
  {
    Bypass b;
    ino = inode_of(path);
  }
  if (!ino) {
    ret = -1;
    err = ENOENT;
  } else if (!g.xattr_fail.empty() && strncmp(name, "trusted.", 8) == 0) {
    ret = -1;
    err = g.xattr_fail == "EPERM" ? EPERM : ENOTSUP;
  } else {
    g.xattrs[ino][name] = std::string((const char*)value, size);
  }
  if (active()) {
    Json::Value e;
    e["ev"] = "setxattr";
    e["path"] = rel_to_root(path);
    e["name"] = name;
    e["val"] = std::string((const char*)value, size);
    e["ret"] = ret;
    ev(e);
  }
  errno = err;
  return ret;
}

static ssize_t xattr_get(uint64_t ino, const char* name, void* value, size_t size) {
  auto it = g.xattrs.find(ino);
  if (it == g.xattrs.end() || !it->second.count(name)) {
    errno = ENODATA;
    return -1;
  }
  const std::string& v = it->second[name];
  if (size == 0) {
    return v.size();
  }
  if (size < v.size()) {
    errno = ERANGE;
    return -1;
  }
  memcpy(value, v.data(), v.size());
  return v.size();
}

ssize_t getxattr(const char* path, const char* name, void* value, size_t size) {
  REALFN(fnptr<ssize_t(const char*, const char*, void*, size_t)>, "getxattr");
  if (!under_root(path)) {
    return real(path, name, value, size);
  }
  uint64_t ino;
  {
    Bypass b;
    ino = inode_of(path);
  }
  if (!ino) {
    errno = ENOENT;
    return -1;
  }
  return xattr_get(ino, name, value, size);
}

ssize_t fgetxattr(int fd, const char* name, void* value, size_t size) {
  REALFN(fnptr<ssize_t(int, const char*, void*, size_t)>, "fgetxattr");
  if (g.root.empty()) {
    return real(fd, name, value, size);
  }
  std::string p = fd_path(fd);
  if (!starts_with(p, g.root)) {
    return real(fd, name, value, size);
  }
  on_access("fgetxattr", p + "#" + name);
  if (g.xattr_get_errno && active()) {
    errno = g.xattr_get_errno;
    return -1;
  }
  struct stat st;
  if (::fstat(fd, &st) != 0) {
    return -1;
  }
  return xattr_get(st.st_ino, name, value, size);
}

// ---------------------------------------------------------------- opens
static int open_common(int dirfd, const char* path, int flags, mode_t mode, const char* which) {
  REALFN(fnptr<int (int, const char*, int, ...)>, "openat");
  std::string store;
  const char* p = redirect(path, store);
  if (active()) {
    std::string full = resolve_at(dirfd, p);
    std::string bn = base_name(full);
    on_access(which, full);
    if (bn == "cgroup.procs") {
      apply_pending_dead(full.substr(0, full.size() - bn.size() - 1));
    }
    int ff = (flags & O_ACCMODE) == O_RDONLY ? file_fault(full) : 0;
    if (interesting_name(bn) && ((flags & O_ACCMODE) != O_RDONLY || bn[0] == 'c')) {
      Json::Value e;
      e["ev"] = "open";
      e["path"] = rel_to_root(full);
      e["wr"] = (flags & O_ACCMODE) != O_RDONLY;
      if (ff) {
        e["fault"] = ff;
      }
      ev(e);
    }
    if (ff == 1) {
      errno = ENOENT;
      return -1;
    }
    if (ff == 3) {
      errno = EACCES;
      return -1;
    }
    if (ff == 5) {
      Json::Value e;
      e["ev"] = "open_fault";
      e["path"] = rel_to_root(full);
      e["errno"] = "EMFILE";
      ev(e);
      errno = EMFILE;
      return -1;
    }
    if (ff == 2) {
      return real(AT_FDCWD, "/dev/null", O_RDONLY | O_CLOEXEC);
    }
    if (ff == 4) {
      return real(AT_FDCWD, g.root.c_str(), O_RDONLY | O_CLOEXEC);
    }
  }
  return real(dirfd, p, flags, mode);
}

int open(const char* path, int flags, ...) {
  mode_t mode = 0;
  if (flags & (O_CREAT | O_TMPFILE)) {
    va_list ap;
    va_start(ap, flags);
    mode = va_arg(ap, mode_t);
    va_end(ap);
  }
  return open_common(AT_FDCWD, path, flags, mode, "open");
}
int open64(const char* path, int flags, ...) {
  mode_t mode = 0;
  if (flags & (O_CREAT | O_TMPFILE)) {
    va_list ap;
    va_start(ap, flags);
    mode = va_arg(ap, mode_t);
    va_end(ap);
  }
  return open_common(AT_FDCWD, path, flags, mode, "open");
}
int openat(int dirfd, const char* path, int flags, ...) {
  mode_t mode = 0;
  if (flags & (O_CREAT | O_TMPFILE)) {
    va_list ap;
    va_start(ap, flags);
    mode = va_arg(ap, mode_t);
    va_end(ap);
  }
  return open_common(dirfd, path, flags, mode, "openat");
}
int openat64(int dirfd, const char* path, int flags, ...) {
  mode_t mode = 0;
  if (flags & (O_CREAT | O_TMPFILE)) {
    va_list ap;
    va_start(ap, flags);
    mode = va_arg(ap, mode_t);
    va_end(ap);
  }
  return open_common(dirfd, path, flags, mode, "openat");
}

static FILE* fopen_common(const char* path, const char* mode, const char* sym) {
  typedef FILE* (*fn_t)(const char*, const char*);
  static fn_t const real_fopen = (fn_t)dlsym(RTLD_NEXT, "fopen");
  static fn_t const real_fopen64 = (fn_t)dlsym(RTLD_NEXT, "fopen64");
  fn_t real = strcmp(sym, "fopen") == 0 ? real_fopen : real_fopen64;
  std::string store;
  const char* p = redirect(path, store);
  if (active() && p) {
    std::string full = p;
    on_access("fopen", full);
    int ff = strchr(mode, 'r') && !strchr(mode, '+') ? file_fault(full) : 0;
    if (ff == 1) {
      errno = ENOENT;
      return nullptr;
    }
    if (ff == 3) {
      errno = EACCES;
      return nullptr;
    }
    if (ff == 2) {
      return real("/dev/null", mode);
    }
    if (ff == 4) {
      return real(g.root.c_str(), mode);
    }
  }
  return real(p, mode);
}
FILE* fopen(const char* path, const char* mode) {
  return fopen_common(path, mode, "fopen");
}
FILE* fopen64(const char* path, const char* mode) {
  return fopen_common(path, mode, "fopen64");
}

int faccessat(int dirfd, const char* path, int mode, int flags) {
  REALFN(fnptr<int (int, const char*, int, int)>, "faccessat");
  std::string store;
  const char* p = redirect(path, store);
  if (active()) {
    std::string full = resolve_at(dirfd, p);
    on_access("faccessat", full);
    int ff = file_fault(full);
    if (ff == 1) {
      errno = ENOENT;
      return -1;
    }
  }
  return real(dirfd, p, mode, flags);
}

// ---------------------------------------------------------------- write
ssize_t write(int fd, const void* buf, size_t n) {
  REALFN(fnptr<ssize_t(int, const void*, size_t)>, "write");
  if (active() && fd > 2 && fd != g.trace_fd) {
    std::string p = fd_path(fd);
    if (!g.root.empty() && starts_with(p, g.root)) {
      Json::Value e;
      e["ev"] = "write";
      e["path"] = rel_to_root(p);
      e["data"] = std::string((const char*)buf, std::min<size_t>(n, 4096));
      e["n"] = (Json::UInt64)n;
      std::string bn = base_name(p);
      for (auto& wf : g.write_faults) {
        if (wf.file == bn && wf.remaining != 0) {
          if (wf.remaining > 0) {
            wf.remaining--;
          }
          if (wf.block) {
            // kernel behaviour of a memory.high write with a target below usage: the limit is set, then the writer sits in
            // the reclaim loop until a signal is pending, and the write still returns n
            e["blocked"] = true;
            ev(e);
            ssize_t r = real(fd, buf, n);
            sigset_t none;
            sigemptyset(&none);
            struct timespec guard = {5, 0};
            ppoll(nullptr, 0, &guard, &none);
            return r;
          }
          if (wf.shortw && n > 1) {
            e["fault"] = "short";
            ev(e);
            return real(fd, buf, n / 2);
          }
          e["fault"] = wf.err;
          ev(e);
          errno = wf.err;
          return -1;
        }
      }
      ev(e);
      if (g.vanish_after_kill && bn == "cgroup.kill") {
        ssize_t r = real(fd, buf, n);
        int saved = errno;
        if (r > 0) {
          vanish_cgroup(p.substr(0, p.size() - bn.size() - 1));
        }
        errno = saved;
        return r;
      }
    }
  }
  return real(fd, buf, n);
}

// ---------------------------------------------------------------- readdir
// listing a cgroup's children is a file access of the tick like any open: a fault point for "just before access k"
DIR* fdopendir(int fd) {
  REALFN(fnptr<DIR * (int)>, "fdopendir");
  if (active()) {
    on_access("fdopendir", fd_path(fd));
  }
  return real(fd);
}
struct dirent* readdir(DIR* d) {
  REALFN(fnptr<struct dirent * (DIR*)>, "readdir");
  struct dirent* r = real(d);
  if (r && active() && g.dtype_unknown) {
    r->d_type = DT_UNKNOWN;
  }
  return r;
}
struct dirent64* readdir64(DIR* d) {
  REALFN(fnptr<struct dirent64 * (DIR*)>, "readdir64");
  struct dirent64* r = real(d);
  if (r && active() && g.dtype_unknown) {
    r->d_type = DT_UNKNOWN;
  }
  return r;
}

// ---------------------------------------------------------------- throw sites
// remember where the most recent C++ exception was thrown, so that an exception that
// escapes Oomd::run() (or terminates a thread) can be attributed to a call site
void __cxa_throw(void* obj, void* tinfo, void (*dest)(void*)) {
  typedef void (*fn_t)(void*, void*, void (*)(void*));
  static fn_t const real = (fn_t)dlsym(RTLD_NEXT, "__cxa_throw");
  if (g.armed && t_bypass == 0) {
    Bypass b;
    void* fr[24];
    int n = backtrace(fr, 24);
    std::string site;
    for (int i = 1; i < n; ++i) {
      Dl_info di;
      if (dladdr(fr[i], &di) && di.dli_sname) {
        int st = 0;
        char* d = abi::__cxa_demangle(di.dli_sname, nullptr, nullptr, &st);
        std::string name = (st == 0 && d) ? d : di.dli_sname;
        free(d);
        if (name.find("Oomd::") != std::string::npos && name.find("vh::") == std::string::npos) {
          auto par = name.find('(');
          site += (site.empty() ? "" : " < ") + name.substr(0, par);
          if (std::count(site.begin(), site.end(), '<') >= 2) {
            break;
          }
        }
      }
    }
    std::lock_guard<std::mutex> l(g.mu);
    g.last_throw = site;
  }
  real(obj, tinfo, dest);
  __builtin_unreachable();
}

// ---------------------------------------------------------------- schedule perturbation (TSan flavor only)
// Seeded yields at real suspension points of the code under test: every mutex acquisition /
// release made through the PLT (std::mutex in oomd's objects) may be followed by a yield or
// a short sleep.  The call is forwarded unchanged, so ThreadSanitizer still sees the
// synchronisation itself.  Off unless a threaded driver sets vh::g_yield_ppm.
#if defined(__SANITIZE_THREAD__)
static void maybe_yield() {
  unsigned ppm = vh::g_yield_ppm.load(std::memory_order_relaxed);
  if (!ppm) {
    return;
  }
  static thread_local uint64_t x = 88172645463325252ULL ^ (uint64_t)(uintptr_t)&x;
  x ^= x << 13;
  x ^= x >> 7;
  x ^= x << 17;
  if ((x % 1000000) < ppm) {
    if (x & 0x100000) {
      usleep((x >> 24) % 200);
    } else {
      sched_yield();
    }
  }
}
int pthread_mutex_lock(pthread_mutex_t* m) {
  REALFN(fnptr<int(pthread_mutex_t*)>, "pthread_mutex_lock");
  maybe_yield();
  return real(m);
}
int pthread_mutex_unlock(pthread_mutex_t* m) {
  REALFN(fnptr<int(pthread_mutex_t*)>, "pthread_mutex_unlock");
  int r = real(m);
  maybe_yield();
  return r;
}
#endif

#ifdef VERIF_HAVE_SYSTEMD
// A scripted system bus: "dbus": "ok" makes the manager accept every method call (the call is recorded), anything else
// refuses the connection as before. Fake handles; libsystemd is never entered.
struct sd_bus;
struct sd_bus_message;
struct sd_bus_error_v {
  const char* name;
  const char* message;
  int need_free;
};
static char fake_bus_obj, fake_msg_obj;
int sd_bus_open_system(sd_bus** ret) {
  bool ok = g.armed && g.scn.get("dbus", "").asString() == "ok";
  if (g.armed) {
    Json::Value e;
    e["ev"] = "sd_bus_open_system";
    e["ok"] = ok;
    ev(e);
  }
  if (ret) {
    *ret = ok ? (sd_bus*)&fake_bus_obj : nullptr;
  }
  return ok ? 0 : -ENOENT;
}
int sd_bus_call_method(sd_bus* bus, const char* dest, const char* path, const char* iface, const char* member, void* error,
                       sd_bus_message** reply, const char* types, ...) {
  Json::Value e;
  e["ev"] = "sd_bus_call_method";
  e["member"] = member ? member : "";
  e["dest"] = dest ? dest : "";
  Json::Value args(Json::arrayValue);
  va_list ap;
  va_start(ap, types);
  for (const char* t = types; t && *t; ++t) {
    if (*t == 's') {
      const char* a = va_arg(ap, const char*);
      args.append(a ? a : "");
    } else {
      break;
    }
  }
  va_end(ap);
  e["args"] = args;
  if (g.armed) {
    ev(e);
  }
  if (reply) {
    *reply = (sd_bus_message*)&fake_msg_obj;
  }
  return bus == (sd_bus*)&fake_bus_obj ? 1 : -ENOTCONN;
}
int sd_bus_message_read(sd_bus_message* m, const char* types, ...) {
  va_list ap;
  va_start(ap, types);
  if (types && types[0] == 'o') {
    const char** out = va_arg(ap, const char**);
    if (out) {
      *out = "/org/freedesktop/systemd1/job/4711";
    }
  }
  va_end(ap);
  return m == (sd_bus_message*)&fake_msg_obj ? 1 : -EINVAL;
}
void sd_bus_error_free(void*) {}
sd_bus_message* sd_bus_message_unref(sd_bus_message*) {
  return nullptr;
}
void sd_bus_close(sd_bus*) {}
sd_bus* sd_bus_unref(sd_bus*) {
  return nullptr;
}
#endif

} // extern "C"
