"""Reference for cgroup path algebra / wildcard resolution (written from docs, not the C++)."""
import fnmatch


def split(path):
    return [c for c in path.split("/") if c]


def canon(path):
    return "/".join(split(path))


def comp_match(pat, name):
    # shell glob on one component; wildcards never match a leading '.'
    if name.startswith(".") and not pat.startswith("."):
        return False
    return fnmatch.fnmatchcase(name, pat)


def has_wild(c):
    return any(ch in c for ch in "*?[")


def expand_braces(pattern):
    """csh-style alternatives as glob(3) with GLOB_BRACE reads them: `a{b,c}d` -> abd, acd (nested braces too); a brace
    without a comma or without its partner stands for itself"""
    i = pattern.find("{")
    while i >= 0:
        depth, j, commas = 0, i, []
        while j < len(pattern):
            ch = pattern[j]
            if ch == "{":
                depth += 1
            elif ch == "}":
                depth -= 1
                if depth == 0:
                    break
            elif ch == "," and depth == 1:
                commas.append(j)
            j += 1
        if j < len(pattern) and commas:
            cuts = [i] + commas + [j]
            out = []
            for a, b in zip(cuts, cuts[1:]):
                for rest in expand_braces(pattern[:i] + pattern[a + 1:b] + pattern[j + 1:]):
                    if rest not in out:
                        out.append(rest)
            return out
        i = pattern.find("{", i + 1)
    return [pattern]


def resolve(pattern, dirs):
    """dirs: set of existing cgroup rel paths ('' is the root). -> sorted list of matches (a set: each directory once)."""
    if "{" in pattern:
        out = set()
        for alt in expand_braces(pattern):
            out.update(resolve(alt, dirs) if "{" not in alt else [])
        return sorted(out)
    pc = split(pattern)
    out = set()
    for d in dirs:
        dc = split(d)
        if len(dc) != len(pc):
            continue
        if all(comp_match(p, c) for p, c in zip(pc, dc)):
            out.add(canon(d))
    return sorted(out)


def resolve_many(patterns, dirs):
    out = set()
    for p in patterns:
        out.update(resolve(p, dirs))
    return sorted(out)


def hook_match(path, pattern):
    """prekill-hook pattern relation: equal, ancestor of a possible match, or descendant of a match;
    '*' stands for exactly one whole component."""
    a, b = split(path), split(pattern)
    n = min(len(a), len(b))
    return all(b[i] == "*" or a[i] == b[i] for i in range(n))


def is_desc_or_self(path, anc):
    a, b = split(path), split(anc)
    return len(a) >= len(b) and a[:len(b)] == b
