"""C09 Each kill plugin's first choice follows its documented ranking policy."""
import random

from vlib import core, world as W, model, killgen as KG
from oracles import killtrace as KT, path as P, kill as K, cgroup as CG
from checks import c03

ID = "C09"
LEVEL = "exploration"
FLAVORS = ["asan"]
RULE = ("flat sibling sets (2-7 equally-preferred populated cgroups) with statistics drawn from small, 2^31/2^32-straddling and up-to-2^62 "
        "ranges, MemTotal/SwapTotal around 2^31 and 2^32, percent / suffixed / bare-MB thresholds, fractional min_growth_ratio, zero "
        "moving averages, tie-heavy values, two- and three-tick histories for the rate based plugins, the siblings' parent with none / all / a share of its own protection and (a quarter of the cases) one more level whose overcommitted grandparent decides what the parent gets; for each of the five kill plugins "
        "the first cgroup the real plugin attempts must lie in the arg-max set of the documented policy computed in exact rational "
        "arithmetic (relative band 1e-6 for float32/double rounding) and no cgroup failing the plugin's filter may ever be attempted. "
        "non-trivial = >=1 invocation whose reference arg-max set is a strict subset of the eligible siblings; distinct by scenario hash")
ASSUMPTIONS = ["reference policies in oracles/kill.py are the reading of docs/core_plugins.md stated in the property",
               "values exactly on a threshold (within 1e-9 relative) are don't-care"]


def rnd_size(rng, mode):
    if mode == "small":
        return rng.randint(0, 1 << 24)
    if mode == "edge":
        return rng.choice([1 << 31, 1 << 32]) + rng.randint(-(1 << 20), 1 << 20)
    if mode == "big":
        return rng.randint(1 << 40, 1 << 59)
    return rng.randint(0, 1 << 36)


def gen(rng, cid, plugin):
    mode = rng.choice(["small", "mid", "edge", "big", "mid"])
    n = rng.randint(2, 7)
    names = rng.sample(KG.NAMES, n)
    mem_total_kb = rng.choice([16 << 20, (1 << 21) - 4, 1 << 21, (1 << 22) + 8, 1 << 23, 3 << 20])
    swap_kb = rng.choice([0, (1 << 21) - 4, 1 << 21, 1 << 22, 5 << 20, 1 << 20])
    proc = W.proc(mem_total_kb=mem_total_kb, swap_entries=((swap_kb, swap_kb // 3),) if swap_kb else ())
    # the parent's own protection decides how much of the children's memory.low / memory.min claims counts: none (0), all of
    # them (max / more than they claim together) or a proportional share (overcommitted)
    cgs = {"/": W.root_cgroup(), "wl": W.cgroup(current=1 << 30)}
    pl = rng.choice([0, 0, "max", 1 << 20, rnd_size(rng, mode), rnd_size(rng, mode) // 3, 1 << 62])
    cgs["wl"]["files"]["memory.low"] = "%s\n" % pl
    if rng.random() < 0.3:
        cgs["wl"]["files"]["memory.min"] = "%s\n" % rng.choice(["max", rnd_size(rng, mode) // 2, 4096])
    cgs["wl"]["files"]["memory.current"] = "%d\n" % rng.choice([1 << 30, 1 << 62, rnd_size(rng, mode)])
    pid = 100
    tie = rng.random() < 0.2
    close = not tie and rng.random() < 0.25
    cbase = rng.choice([1 << 26, 1 << 32, (1 << 32) + 12345, 1 << 40, 1 << 50, 1 << 58])  # n * cbase stays below 2^62
    for nm in names:
        cur = rnd_size(rng, mode) if not tie else rng.choice([1 << 20, 1 << 30])
        if close:
            cur = cbase + rng.randint(0, 4096)  # 64-bit byte counts that differ only in their low bits
        pr = lambda: (round(rng.uniform(0, 99), 2), round(rng.uniform(0, 99), 2), round(rng.uniform(0, 99), 2), 7)
        if rng.random() < 0.3:
            base = float(rng.randint(0, 90))
            pr = lambda: (round(base + rng.uniform(0, 0.99), 2), round(base + rng.uniform(0, 0.99), 2), 1.0, 7)
        cgs["wl/" + nm] = W.cgroup(
            current=cur, pids=[pid],
            mem_pressure=W.psi(full=pr()), io_pressure=W.psi(full=pr()),
            stat=W.memstat({"pgscan": rng.randint(0, 10**6), "anon": cur // 3}),
            low=rng.choice([0, 0, rnd_size(rng, mode) // 2]), minv=rng.choice([0, 0, rnd_size(rng, mode) // 4]),
            swap_current=(cbase // 2 + rng.randint(0, 2048)) if close else rng.choice([0, rnd_size(rng, "small"), rnd_size(rng, mode) // 8]),
            iostat=KG.iostat_text(rng))
        pid += 1
    args = {"cgroup": "wl/*"}
    if plugin == "kill_by_pressure":
        args["resource"] = rng.choice(["memory", "io"])
    elif plugin == "kill_by_swap_usage":
        r = rng.random()
        if r < 0.8:
            args["threshold"] = rng.choice(["0", "1", "5%", "10%", "50%", "1K", "64K", "1.5M", "1M 512K", "1G", "100"])
        if rng.random() < 0.4:
            args["biased_swap_kill"] = "true"
        if rng.random() < 0.2:
            args["meminfo_location"] = "/proc/meminfo"
    elif plugin == "kill_by_memory_size_or_growth":
        if rng.random() < 0.7:
            args["size_threshold"] = str(rng.choice([0, 10, 30, 50, 80, 100]))
        if rng.random() < 0.6:
            args["growing_size_percentile"] = str(rng.choice([0, 20, 50, 80, 99]))
        if rng.random() < 0.7:
            args["min_growth_ratio"] = rng.choice(["1", "2", "1.5", "1.25", "2.5", "0.5", "3"])
    growth_focus = plugin == "kill_by_memory_size_or_growth" and rng.random() < 0.35
    if growth_focus:
        # make the growth phase decisive and put observed growth ratios on both sides of a fractional threshold
        args.update({"size_threshold": "100", "growing_size_percentile": rng.choice(["0", "20"]),
                     "min_growth_ratio": rng.choice(["1.5", "2.5", "2.75", "0.5", "3.1"])})
    if plugin in ("kill_by_memory_size_or_growth", "kill_by_pressure") and rng.random() < 0.3:
        # the same siblings reached by descending from their parent: every level is ranked among its own siblings, with cut-offs
        # computed from those siblings
        args["cgroup"] = "wl"
        args["recursive"] = "true"
    boundary = growth_focus and rng.random() < 0.5
    if boundary:
        # put one sibling's usage / moving average EXACTLY on a non-dyadic configured ratio at tick 1:
        # avg1 = 3/4*(cur0/4) + cur1/4, so cur1/avg1 == r  <=>  cur1 = (3r/16)/(1 - r/4) * cur0
        from fractions import Fraction as F_
        r = rng.choice(["1.1", "1.2", "1.6", "1.3", "2.2"])
        args["min_growth_ratio"] = r
        rr = F_(r)
        k = (3 * rr / 16) / (1 - rr / 4)
        base = 16 * k.denominator * rng.randint(1000, 100000)
        tgt = "wl/" + names[0]
        cgs[tgt]["files"]["memory.current"] = "%d\n" % base
        cgs[tgt]["files"]["memory.low"] = "0\n"
        cgs[tgt]["files"]["memory.min"] = "0\n"
        exact_cur1 = int(k * base)
        args["growing_size_percentile"] = "0"
        # every other sibling is bigger but shrinking (growth ~0.47), so the cgroup sitting exactly on the
        # ratio is the only grower: documented first choice = it; "not a grower" => the biggest sibling
        other_cur1 = {}
        for j, nm in enumerate(names[1:]):
            other_cur1["wl/" + nm] = exact_cur1 * (2 + j)
            cgs["wl/" + nm]["files"]["memory.current"] = "%d\n" % (10 * exact_cur1 * (2 + j))
            cgs["wl/" + nm]["files"]["memory.low"] = "0\n"
            cgs["wl/" + nm]["files"]["memory.min"] = "0\n"
    nticks = rng.choice([2, 3])
    # sampling gap: one sibling's counter file is unreadable for exactly one tick, so on the next tick it has no
    # previous-tick baseline while its siblings do (rates must not be computed against an older baseline)
    gap = None
    if not boundary and plugin in ("kill_by_pg_scan", "kill_by_io_cost", "kill_by_memory_size_or_growth") and rng.random() < 0.3:
        nticks = rng.choice([4, 5])
        gap = (rng.randint(1, nticks - 2), "wl/" + rng.choice(names),
               {"kill_by_pg_scan": "memory.stat", "kill_by_io_cost": "io.stat"}.get(plugin, "memory.current"))
    ticks = [{"step_ns": 10**9, "ops": []}]
    for t in range(1, nticks):
        ops = []
        for nm in names:
            r = "wl/" + nm
            if gap and gap[0] == t and gap[1] == r:
                ops.append({"op": "write", "cg": r, "file": gap[2], "text": None})
                continue
            old = CG.parse_kv(cgs[r]["files"]["memory.stat"])
            old["pgscan"] = old["pgscan"] + rng.choice([0, 0, 1, rng.randint(1, 10**6)])
            ops.append({"op": "write", "cg": r, "file": "memory.stat", "text": W.memstat(old)})
            ops.append({"op": "write", "cg": r, "file": "io.stat", "text": KG.iostat_text(rng, 1 + t)})
            cur = CG.parse_scalar(cgs[r]["files"]["memory.current"])
            f = rng.choice([0, 0.5, 1, 1, 1.2, 1.4, 1.6, 2, 3])
            newcur = int(cur * f)
            if boundary and t == 1:
                newcur = exact_cur1 if r == tgt else other_cur1[r]
            ops.append({"op": "write", "cg": r, "file": "memory.current", "text": "%d\n" % newcur})
        ticks.append({"step_ns": 10**9, "ops": ops})
    base = "wl"
    if not boundary and rng.random() < 0.25:
        # one level more: the ranked siblings' parent is itself one of two claimants below `top`, so what the parent gets (not what
        # it claims) is what its children share - P(c) = R(c) * min(1, P(parent) / sum of the siblings' claims), recursively
        base = "top/wl"
        ren = lambda r: r if r == "/" else "top/" + r
        cgs = {ren(k): c for k, c in cgs.items()}
        for t in ticks:
            for o in t["ops"]:
                o["cg"] = ren(o["cg"])
        if gap:
            gap = (gap[0], ren(gap[1]), gap[2])
        args["cgroup"] = "top/" + args["cgroup"]
        r_wl = rng.choice([1 << 30, 6 << 30, 1 + rnd_size(rng, mode)])
        cgs["top/wl"]["files"]["memory.low"] = "%d\n" % r_wl
        cgs["top/wl"]["files"]["memory.min"] = "0\n"
        cgs["top"] = W.cgroup(current=1 << 40, low=r_wl // rng.choice([1, 2, 3, 3]))
        cgs["top/batch"] = W.cgroup(current=1 << 30, pids=[99], low=rng.choice([0, r_wl // 2, r_wl, 3 * r_wl]))
        if rng.random() < 0.6:
            # the siblings' claims together come to 0.3 - 1.2 times the parent's claim, each in its own proportion to its usage
            tot = int(r_wl * rng.uniform(0.3, 1.2))
            ws = [rng.uniform(0.1, 1) for _ in names]
            for nm, wgt in zip(names, ws):
                cgs["top/wl/" + nm]["files"]["memory.low"] = "%d\n" % int(tot * wgt / sum(ws))
                cgs["top/wl/" + nm]["files"]["memory.min"] = "0\n"
    # nobody dies: every kill fails, so the same sibling set is ranked on every tick and fallback order is visible
    scn = KG.base_scn(cid, cgs, KG.kill_config(plugin, args), ticks=ticks, proc=proc, kill={"default": "ESRCH"})
    return core.Case(cid, [scn], {"plugin": plugin, "args": args, "mode": mode, "gap": gap, "base": base})


def cases(seed, tier):
    per = 300 if tier == "quick" else 3000
    rng = random.Random(seed * 1000003 + 9)
    for i in range(per * 5):
        yield gen(rng, "C09-%d-%d" % (seed, i), KG.PLUGINS[i % 5])


def judge(case, results):
    v = core.Verdict()
    res, scn = results[0], case.scns[0]
    cr = core.classify_crash(res) if res.crashed else core.exception_outcome(res)
    if cr:
        v.bad("crash:" + cr[0], cr[1], cr[2])
        return v
    args, plugin = case.meta["args"], case.meta["plugin"]
    params = CG.Params(scn)
    hist = CG.History(params)
    invs = KT.parse(res.events)
    w = model.World(scn)
    strict = 0
    for ti, t in enumerate(scn["ticks"]):
        w.apply(t.get("ops"))
        view = CG.View(w.snapshot(), params)
        roots = P.resolve_many([case.meta.get("base", "wl") + "/*"], view.w.dirs())
        temporal = hist.step(view, roots, ti)
        inv = invs[ti] if ti < len(invs) else None
        if inv is None:
            break
        observed = [a.victim for a in inv.attempts]
        if plugin == "kill_by_pg_scan" and ti == 0:
            continue
        if inv.pre is None and not (ti > 0 and invs[ti - 1].ret == "A"):
            continue
        walk = K.Walk(view, temporal, plugin, args, lambda rel: False)
        best, elig = walk.first_choices(roots)
        groups = [best] if elig else []
        v.count("invocations")
        if walk.ambiguous:
            v.count("dontcare_threshold_boundary")
            continue
        eligible = set(elig)
        for o in observed:
            if o not in eligible:
                v.bad("ineligible-attempted", plugin, "tick %d %s args %s: attempted %s which fails the plugin's filter; eligible %s" % (ti, plugin, args, o, sorted(eligible)))
                return v
        if not groups:
            if observed:
                v.bad("attempt-without-candidates", plugin, "tick %d: attempted %s, reference has no eligible cgroup" % (ti, observed))
                return v
            continue
        if not observed:
            v.bad("no-attempt", plugin, "tick %d %s args %s: nothing attempted, reference first choice %s" % (ti, plugin, args, groups[0]))
            return v
        if observed[0] not in groups[0]:
            rk = K.Ranker(plugin, args, view)
            keys = rk.keys(view, temporal, roots)
            v.bad("first-choice", plugin, "tick %d %s args %s: first attempt %s, documented arg-max %s; keys %s" % (
                ti, plugin, args, observed[0], groups[0], {k: [str(getattr(x, "v", x)) for x in (val if isinstance(val, tuple) else (val,))] for k, val in keys.items()}))
            return v
        if len(groups[0]) < len(eligible):
            strict += 1
    v.count("strict_argmax_invocations", strict)
    v.count("plugin:" + plugin)
    if args.get("recursive"):
        v.count("reached_by_descent_cases")
    if case.meta.get("gap"):
        v.count("sampling_gap_cases")
    if case.meta.get("base", "wl") != "wl":
        v.count("three_level_protection_cases")
    v.nontrivial = strict > 0
    v.sig = core.scn_hash(scn)
    return v


def sample(case, v):
    s = case.scns[0]
    return {"case": case.id, "plugin": case.meta["plugin"], "args": case.meta["args"], "value_mode": case.meta["mode"],
            "siblings": {k: {f: c["files"][f].strip() for f in ("memory.current", "memory.low", "memory.min", "memory.swap.current")}
                         for k, c in s["cgroups"].items() if k.startswith(case.meta.get("base", "wl") + "/")}, "observed": v.stats}
