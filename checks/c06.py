"""C06 Async continuation — resume the same action with the original context."""
import random

from vlib import core, world as W
from oracles import engine
from checks import c02

ID = "C06"
LEVEL = "exploration"
FLAVORS = ["asan"]
RULE = ("random chains of 2-4 scripted actions with heavy ASYNC_PAUSED scripts (any position, 1-4 consecutive pauses), detectors that "
        "mostly stop firing during the pause, 1-3 rulesets pausing independently plus ruleset-cgroup instances; the oracle requires "
        "that the tick after an ASYNC_PAUSED the first action run of that ruleset instance is the paused action with a field-for-field "
        "equal context (ruleset, group, uuid, deadline, target), that successors follow in order, that no chain starts while suspended, "
        "that detectors run every tick, and that every new chain starts at action 0 with a uuid never seen before; real kill plugins (dry) that defer on a prekill hook must poll it on every following tick until it is done, whatever post_action_delay they carry. "
        "non-trivial = >=1 resume on a tick where no group fired and >=1 chain start after a finished chain; distinct by config+script hash")
ASSUMPTIONS = c02.ASSUMPTIONS
OWN = {"C06"}


def cases(seed, tier):
    n = 1000 if tier == "quick" else 8000
    rng = random.Random(seed * 1000003 + 6)
    for i in range(n):
        nrs = rng.choice([1, 2, 3])
        rulesets = []
        for k in range(nrs):
            rs = c02.gen_ruleset(rng, "r%d" % k, delays=("0", "0", "1", "2"))
            while len(rs["actions"]) < 2:
                rs["actions"].append(W.act("r%d.a%d" % (k, len(rs["actions"]))))
            rulesets.append(rs)
        cg = {"/": W.root_cgroup()}
        if rng.random() < 0.3:
            for nm in ("wl/x1", "wl/x2", "wl/y"):
                cg[nm] = W.cgroup()
            rulesets[0]["cgroup"] = "wl/x*"
        nticks = rng.randint(10, 14)
        fire_p = rng.choice([0.35, 0.6, 0.9])
        scripts = c02.gen_scripts(rng, rulesets, nticks, fire_p, async_p=rng.choice([0.35, 0.5, 0.65]), stop_p=0.15)
        ticks = c02.gen_ticks(rng, nticks, steps=(0, 1, 1, 2, 5))
        cid = "C06-%d-%d" % (seed, i)
        if i % 4 == 1:
            c02.dropin_noise(rng, rulesets, ticks, p=0.5)
        scn = c02.mk_scn(cid, {"rulesets": rulesets}, scripts, ticks, {"cgroups": cg})
        yield core.Case(cid, [scn], {"rulesets": nrs, "ticks": nticks})


_cases_scripted = cases


def cases(seed, tier):
    yield from _cases_scripted(seed, tier)
    # the same clause through the real kill plugins: a (dry) kill that waits for its prekill hook returns ASYNC_PAUSED and has to be
    # run again on every following tick until the hook is done - whatever post_action_delay the plugin or the ruleset carries
    from checks import c05
    k = 0
    for c in c05.real_cases(seed + 600, 500 if tier == "quick" else 4000):
        if c.meta.get("hook"):
            c.id = "C06r-%d-%d" % (seed, k)
            c.scns[0]["id"] = c.id
            k += 1
            yield c


def judge_real(case, results):
    v = core.Verdict()
    res, scn = results[0], case.scns[0]
    cr = core.classify_crash(res) if res.crashed else core.exception_outcome(res)
    if cr:
        v.bad("crash:" + cr[0], cr[1], cr[2])
        return v
    _, tks = engine.split_ticks(res.events)
    times = {e["i"]: e["t"] for e in res.events if e.get("ev") == "tick"}
    pending = {}  # hook invocation -> (tick fired, time fired)
    waits = polls = 0
    for ti, evs in enumerate(tks):
        polled = set()
        for e in evs:
            if e.get("ev") != "hook":
                continue
            if e["m"] == "fire":
                pending[e["inv"]] = (ti, times.get(ti, 0))
                polled.add(e["inv"])
            elif e["m"] == "didFinish":
                polled.add(e["inv"])
                polls += 1
                if e["ret"]:
                    pending.pop(e["inv"], None)
            elif e["m"] == "destroy":
                pending.pop(e["inv"], None)
        for inv, (t0, at) in list(pending.items()):
            if inv in polled:
                continue
            if times.get(ti, 0) - at >= 59 * 10**9:
                pending.pop(inv)  # (the 60 s prekill_hook_timeout is C07's business)
                continue
            waits += 1
            v.bad("resume-same-action", "real-plugin", "%s (own post_action_delay %s, ruleset %s): the kill action deferred at tick %d waiting for its prekill hook (invocation %s) and was not run on tick %d" % (
                case.meta["plugin"], case.meta["own"], case.meta["ruleset"], t0, inv, ti))
            return v
    v.count("real_plugin_hook_wait_cases")
    v.count("real_plugin_hook_polls", polls)
    v.nontrivial = polls > 0
    v.sig = core.scn_hash(scn)
    return v


def judge(case, results):
    if case.meta.get("real"):
        return judge_real(case, results)
    scn = case.scns[0]
    live = None
    for r in scn["config"]["rulesets"]:
        if r.get("cgroup"):
            live = {r["name"]: [{"wl/x1", "wl/x2"}] * len(scn["ticks"])}
    v = core.Verdict()
    res = results[0]
    cr = core.classify_crash(res) if res.crashed else core.exception_outcome(res)
    if cr:
        v.bad("crash:" + cr[0], cr[1], cr[2])
        return v
    viol, st = engine.check(scn["config"], res.events, live=live, nticks=len(scn["ticks"]), identity=False)
    st["dropin_requests"] = sum(1 for e in res.events if e.get("ev") == "dropin")
    st["dropin_adds_applied"] = sum(1 for e in res.events if e.get("ev") == "dropin_result" and e["op"] == "add" and e["ok"])
    st["dropin_adds_rolled_back"] = sum(1 for e in res.events if e.get("ev") == "dropin_result" and e["op"] == "add" and not e["ok"])
    for prop, rule, disc, detail in viol:
        if prop in OWN or prop == "ANY":
            v.bad(rule, disc, detail)
        else:
            v.count("other_property_divergence:" + prop + ":" + rule)
    for k, n in st.items():
        v.count(k, n)
    v.nontrivial = st["resumes"] > 0 and st["chain_starts"] > 1
    v.sig = core.scn_hash([scn["config"], scn["scripts"], scn["ticks"]])
    return v


def sample(case, v):
    if case.meta.get("real"):
        return {"case": case.id, "real_plugin": case.meta, "observed": v.stats}
    return c02.sample(case, v)
