"""C11 Ruleset-level cgroup: one independent, persistent instance per matching cgroup."""
import random

from vlib import core, world as W, model
from oracles import engine, path as P
from checks import c02

ID = "C11"
LEVEL = "exploration"
FLAVORS = ["asan"]
RULE = ("rulesets with a `cgroup` pattern (literal, *, ?, multi-level) and optional xattr_filter over real directories; histories of "
        "8-14 ticks in which matching cgroups are created, removed (several at once), re-created and (un)tagged between ticks, with "
        "per-instance scripts; per tick the oracle requires: evaluated set == existing matching (tagged) dirs, each exactly once; "
        "detectors of every instance run once; instance numbers stable while matched and fresh after an absence; per-instance "
        "pause/suspension evolve independently (engine state machine per instance); prerun reaches every live instance every tick; "
        "actions initialised with cgroup=<that cgroup> unless they name their own; no sanitizer report on discard. Patterns with brace alternatives (overlapping, or with an alternative that does not exist) and one-tick EMFILE faults on opening a matching cgroup's directory (evaluation on that tick not judged, instance and state afterwards are) are part of the mix. "
        "non-trivial = >=1 instance dropped and >=1 instance created after tick 0 and >=1 chain start; distinct by config+history hash")
ASSUMPTIONS = c02.ASSUMPTIONS + ["matching is recomputed by an independent per-component fnmatch over the python world model",
                                  "xattrs are emulated by the harness keyed by inode (a re-created directory has none, as on kernfs)"]
OWN = {"C11"}
NAMES = ["a", "a1", "a10", "ab", "b", "b1", "svc", "svc1", "svc-x"]
XA = "user.oomd_ruleset_on"


# the filter asks for the attribute's presence: an empty value, "0" or any text still carries it
XVALS = ["1", "1", "", "0", "yes"]


def cases(seed, tier):
    n = 1000 if tier == "quick" else 6000
    rng = random.Random(seed * 1000003 + 11)
    for i in range(n):
        pat = rng.choice(["wl/*", "wl/a*", "wl/a?", "wl/svc*", "wl/*/x", "wl/a", "*/a1", "wl/[ab]*"])
        if i % 9 == 4:
            # alternatives: overlapping ones still mean one instance and one evaluation per cgroup, and an alternative whose
            # directory does not exist takes nothing away from the others
            pat = rng.choice(["wl/{a,a*}", "wl/{a1,b1,a1}", "{wl,nowhere}/a*", "{nowhere,wl}/{svc*,*1}"])
        use_x = rng.random() < 0.4
        rs = c02.gen_ruleset(rng, "rc", delays=("0", "1", "2", None), act_delay=rng.random() < 0.5)
        rs["cgroup"] = pat
        if use_x:
            rs["xattr_filter"] = XA
        if rng.random() < 0.4:
            # one action names its own cgroup
            rs["actions"][0]["args"]["cgroup"] = "own/target"
        rulesets = [rs]
        if rng.random() < 0.4:
            rulesets.insert(rng.randint(0, 1), c02.gen_ruleset(rng, "plain"))
        nticks = rng.randint(8, 14)
        deep = "/x" in pat
        universe = [("wl/" + nm + ("/x" if deep else "")) for nm in NAMES] + ["other/a1", "wl2/a"]
        cg = {"/": W.root_cgroup(), "wl": W.cgroup(), "own/target": W.cgroup()}
        present = set()
        for u in universe:
            if rng.random() < 0.5:
                cg[u] = W.cgroup()
                if use_x and rng.random() < 0.7:
                    cg[u]["xattrs"] = {XA: rng.choice(XVALS)}
                present.add(u)
        ticks = []
        for t in range(nticks):
            ops = []
            if t > 0:
                k = rng.choice([0, 0, 1, 1, 2, 3, 5])
                for u in rng.sample(universe, min(k, len(universe))):
                    if u in present:
                        r = rng.random()
                        if use_x and r < 0.3:
                            ops.append({"op": "xattr", "cg": u, "name": XA, "val": rng.choice([None, "1", ""])})
                        elif r < 0.8:
                            ops.append({"op": "rm", "cg": u})
                            present.discard(u)
                        else:  # remove and re-create within the same tick gap
                            ops.append({"op": "rm", "cg": u})
                            spec = W.cgroup()
                            if use_x and rng.random() < 0.7:
                                spec["xattrs"] = {XA: rng.choice(XVALS)}
                            ops.append(dict(op="mk", cg=u, **spec))
                    else:
                        spec = W.cgroup()
                        if use_x and rng.random() < 0.7:
                            spec["xattrs"] = {XA: rng.choice(XVALS)}
                        ops.append(dict(op="mk", cg=u, **spec))
                        present.add(u)
            ticks.append({"step_ns": rng.choice([0, 1, 1, 2, 5]) * 10**9, "ops": ops})
        scripts = c02.gen_scripts(rng, rulesets, nticks, rng.choice([0.6, 0.9]), async_p=0.2, stop_p=0.3)
        # per-instance scripts for some cgroups
        for u in rng.sample(universe, 3):
            for a in rs["actions"]:
                scripts[a["args"]["id"] + "@" + u] = [rng.choice("CSA") for _ in range(nticks)]
        cid = "C11-%d-%d" % (seed, i)
        if i % 4 == 2:
            c02.dropin_noise(rng, rulesets, ticks, p=0.4)
        scn = c02.mk_scn(cid, {"rulesets": rulesets}, scripts, ticks, {"cgroups": cg})
        if i % 5 == 3:
            # for one tick the directory of a matching cgroup cannot be opened (EMFILE): that says nothing about the cgroup, which
            # exists throughout - its instance, pause and suspended chain are still there on the next tick
            ft = rng.randint(1, nticks - 2)
            scn["file_faults"] = [{"cg": u, "mode": "emfile", "from_tick": ft, "to_tick": ft} for u in rng.sample(universe, rng.choice([1, 1, 2, 4]))]
        yield core.Case(cid, [scn], {"pattern": pat, "xattr": use_x, "ticks": nticks})


DECOY = {"s*r": "svcr", "q?z": "qaz", "w[1]": "w1", "app\\x2dhog.service": "appx2dhog.service"}


def real_cases(seed, n):
    """'its actions targeting that cgroup unless they name their own', observed on what a real kill plugin does: a ruleset-level
    cgroup `wl/*` over cgroups whose names may contain glob metacharacters (systemd escapes '-' as \\x2d), each with a decoy
    sibling that the name would match if it were read as a pattern; the kill action names no cgroup of its own"""
    from vlib import killgen as KG
    rng = random.Random(seed * 1000003 + 111)
    for i in range(n):
        plugin = rng.choice(KG.PLUGINS)
        names = rng.sample(KG.NAMES, rng.randint(2, 5))
        for nm in list(names):
            if nm in DECOY and rng.random() < 0.7:
                names.append(DECOY[nm])
        cgs = {"/": W.root_cgroup(), "wl": W.cgroup(current=1 << 30)}
        pids = KG.PidAlloc()
        info = {}
        for nm in names:
            spec, mine = KG.gen_node(rng, pids, pidcounts=(1, 2, 3))
            # (kill_by_swap_usage runs with threshold "1" = 1 MB: every instance's cgroup has to be above it to be a candidate)
            spec["files"]["memory.swap.current"] = "%d\n" % rng.randint(2 << 20, 1 << 30)
            cgs["wl/" + nm] = spec
            info["wl/" + nm] = mine
        args = {}
        if plugin == "kill_by_pressure":
            args["resource"] = "memory"
        if plugin == "kill_by_swap_usage":
            args["threshold"] = "1"
        if rng.random() < 0.3:
            args["recursive"] = "true"
        nticks = rng.randint(2, 4)
        ticks = []
        for t in range(nticks):
            ops = []
            if t > 0 and plugin in ("kill_by_pg_scan", "kill_by_io_cost"):
                for r in info:
                    ops.append({"op": "write", "cg": r, "file": "memory.stat", "text": W.memstat({"pgscan": 1000 * (t + 1) + len(r)})})
                    ops.append({"op": "write", "cg": r, "file": "io.stat", "text": KG.iostat_text(rng, t + 1)})
            ticks.append({"step_ns": 10**9, "ops": ops})
        cfg = {"rulesets": [{"name": "rc", "cgroup": "wl/*", "post_action_delay": "0", "detectors": [["g", W.det("d")]],
                             "actions": [W.act("pre"), {"name": plugin, "args": args}, W.act("post")]}]}
        cid = "C11r-%d-%d" % (seed, i)
        scn = KG.base_scn(cid, cgs, cfg, ticks=ticks, kill={"default": "ok", "pids": {}})
        yield core.Case(cid, [scn], {"real": True, "plugin": plugin, "names": names, "pids": info})


def restart_cases(seed, n):
    """a ruleset-level cgroup whose action does not take a `cgroup` argument at all (systemd_restart): every instance must still be
    a working instance - its chain runs, and the restart asks for the configured service"""
    from vlib import killgen as KG
    rng = random.Random(seed * 1000003 + 112)
    for i in range(n):
        names = rng.sample(["a", "b", "svc", "svc1", "db"], rng.randint(1, 3))
        cgs = {"/": W.root_cgroup(), "wl": W.cgroup()}
        for nm in names:
            cgs["wl/" + nm] = W.cgroup(current=1 << 20, pids=[])
        svc = rng.choice(["foo.service", "bar@1.service", "x.slice"])
        args = {"service": svc}
        if rng.random() < 0.5:
            args["post_action_delay"] = str(rng.choice([0, 1]))
        if rng.random() < 0.3:
            args["dry"] = "false"
        cfg = {"rulesets": [{"name": "rc", "cgroup": "wl/*", "post_action_delay": "0", "detectors": [["g", W.det("d")]],
                             "actions": [W.act("pre"), {"name": "systemd_restart", "args": args}, W.act("post")]}]}
        cid = "C11s-%d-%d" % (seed, i)
        scn = KG.base_scn(cid, cgs, cfg, ticks=[{"step_ns": 2 * 10**9} for _ in range(3)])
        scn["dbus"] = "ok"
        yield core.Case(cid, [scn], {"restart": True, "names": names, "service": svc})


def judge_restart(case, results):
    v = core.Verdict()
    res, m = results[0], case.meta
    cr = core.classify_crash(res) if res.crashed else core.exception_outcome(res)
    if cr:
        v.bad("crash:" + cr[0], cr[1], cr[2])
        return v
    _, ticks = engine.split_ticks(res.events)
    calls = 0
    for ti, evs in enumerate(ticks[:1]):
        seen = sorted(e.get("rcg") for e in evs if e.get("ev") == "plugin" and e["m"] == "run" and e["id"] == "pre")
        want = sorted("wl/" + n for n in m["names"])
        if seen != want:
            v.bad("live-set", "restart-action", "tick %d: chains ran for %s, matching cgroups %s (the action takes no cgroup argument)" % (ti, seen, want))
        for e in evs:
            if e.get("ev") == "sd_bus_call_method":
                calls += 1
                if e["member"] != "RestartUnit" or e["args"][:1] != [m["service"]]:
                    v.bad("action-lost-its-arguments", "systemd_restart", "tick %d: an instance of the ruleset asked systemd for %s%s, configured service %r" % (ti, e["member"], e["args"], m["service"]))
        if seen == want and calls != len(want):
            v.bad("action-lost-its-arguments", "systemd_restart:no-call", "tick %d: %d instances ran their chain, %d RestartUnit calls" % (ti, len(want), calls))
    v.count("restart_action_cases")
    v.count("restart_calls", calls)
    v.nontrivial = calls > 0
    v.sig = core.scn_hash(case.scns[0])
    return v


def judge_real(case, results):
    v = core.Verdict()
    res, scn = results[0], case.scns[0]
    cr = core.classify_crash(res) if res.crashed else core.exception_outcome(res)
    if cr:
        v.bad("crash:" + cr[0], cr[1], cr[2])
        return v
    m = case.meta
    alive = {r: set(p) for r, p in m["pids"].items()}
    _, ticks = engine.split_ticks(res.events)
    special = attempts = 0
    for ti, evs in enumerate(ticks):
        cur = None  # instance cgroup whose chain is running
        seen = []
        for e in evs:
            k = e.get("ev")
            if k == "plugin" and e["m"] == "run":
                if e["id"] == "pre":
                    cur = e.get("rcg")
                    seen.append(cur)
                    hit = {"victims": [], "kills": []}
                elif e["id"] == "post" and cur is not None:
                    # the kill action returned CONTINUE: it found nothing to kill in its target
                    if alive.get(cur):
                        v.bad("action-missed-its-cgroup", "glob-metachar-name" if set(cur) & set("\\*?[]{}") else "",
                              "tick %d instance %s: the kill action found nothing to kill although %s has live processes %s (it was initialised with cgroup=%s, which is read as a pattern)" % (
                                  ti, cur, cur, sorted(alive[cur]), cur))
                    cur = None
                continue
            if k == "kill" and e["ret"] == 0:
                for r, ps in alive.items():
                    ps.discard(e["pid"])
            if cur is None:
                continue  # (a chain resumed after an async pause has no scripted action in front of the kill: not attributed)
            if k == "setxattr" and e["name"].endswith(".oomd_kill_uuid") and e["name"].startswith("trusted."):
                vic = e["path"][4:] if e["path"].startswith("/cg/") else e["path"]
                attempts += 1
                if set(cur) & set("\\*?[]{}"):
                    special += 1
                if vic != cur:
                    v.bad("action-on-other-cgroup", "glob-metachar-name" if set(cur) & set("\\*?[]{}") else "",
                          "tick %d instance %s: its kill action marked %s as victim" % (ti, cur, vic))
            elif k == "kill" and e["ret"] == 0:
                owner = next((r for r, ps in m["pids"].items() if e["pid"] in ps), None)
                if owner != cur:
                    v.bad("action-on-other-cgroup", "signal", "tick %d instance %s: its kill action signalled pid %d of %s" % (ti, cur, e["pid"], owner))
        want = sorted("wl/" + n for n in m["names"])
        # (later ticks: an instance that killed sits in the kill plugin's own post_action_delay, no chain is expected)
        if ti == 0 and sorted(seen) != want:
            v.bad("live-set", "real", "tick %d: chains ran for %s, matching cgroups %s" % (ti, sorted(seen), want))
    v.count("real_action_cases")
    v.count("real_attempts", attempts)
    v.count("real_attempts_on_glob_metachar_names", special)
    v.nontrivial = attempts > 0
    v.sig = core.scn_hash(scn)
    return v


def live_sets(scn):
    out = {}
    ws = model.worlds_per_tick(scn)
    for r in scn["config"]["rulesets"]:
        if not r.get("cgroup"):
            continue
        per = []
        for w in ws:
            m = P.resolve(r["cgroup"], w.dirs())
            if r.get("xattr_filter"):
                m = [x for x in m if r["xattr_filter"] in w.cg[x]["xattrs"]]
            per.append(set(m))
        out[r["name"]] = per
    return out, ws


def disabled_cases(seed, n):
    """a ruleset-level cgroup ruleset that a drop-in disables for a while (disable-on-drop-in): it does not act meanwhile, but a
    cgroup that disappears during those ticks is gone all the same - what is re-created later starts from fresh state"""
    rng = random.Random(seed * 1000003 + 1111)
    for i in range(n):
        rs = c02.gen_ruleset(rng, "rc", delays=("0", "1", "3", None), act_delay=rng.random() < 0.5)
        rs["cgroup"] = "wl/*"
        rs["drop-in"] = {"detectors": True, "actions": True, "disable-on-drop-in": True}
        nticks = rng.randint(10, 14)
        names = ["wl/a", "wl/b", "wl/c"]
        cg = {"/": W.root_cgroup(), "wl": W.cgroup()}
        for u in names:
            cg[u] = W.cgroup()
        t_add = rng.randint(1, 3)
        t_rem = rng.randint(t_add + 3, nticks - 2)
        ticks = [{"step_ns": rng.choice([1, 1, 2]) * 10**9, "ops": []} for _ in range(nticks)]
        u = "x%d" % i
        ticks[t_add]["dropins"] = [{"op": "add", "tag": "off.json", "_u": u, "_target": "rc",
                                    "config": {"rulesets": [{"name": "rc", "detectors": [["dg", W.det(u + ".d")]], "actions": [W.act(u + ".a")]}]}}]
        ticks[t_rem]["dropins"] = [{"op": "remove", "tag": "off.json"}]
        # while the base is disabled: one cgroup goes and comes back after 1+ ticks of absence, one goes for good, one stays
        victim = rng.choice(names)
        t_gone = rng.randint(t_add, t_rem - 2)
        t_back = rng.randint(t_gone + 1, t_rem - 1) if rng.random() < 0.8 else rng.randint(t_rem, nticks - 1)
        ticks[t_gone]["ops"].append({"op": "rm", "cg": victim})
        ticks[t_back]["ops"].append(dict(op="mk", cg=victim, **W.cgroup()))
        if rng.random() < 0.5:
            other = rng.choice([x for x in names if x != victim])
            ticks[rng.randint(t_add, t_rem - 1)]["ops"].append({"op": "rm", "cg": other})
        scripts = c02.gen_scripts(rng, [rs], nticks, rng.choice([0.6, 0.9]), async_p=0.2, stop_p=0.3)
        cid = "C11d-%d-%d" % (seed, i)
        scn = c02.mk_scn(cid, {"rulesets": [rs]}, scripts, ticks, {"cgroups": cg})
        yield core.Case(cid, [scn], {"pattern": "wl/*", "xattr": False, "ticks": nticks, "disabled": [t_add, t_rem], "absent": [victim, t_gone, t_back]})


def disabled_ticks(scn, events):
    """{ruleset: set of ticks} on which a base ruleset with disable-on-drop-in is targeted by an active drop-in, read off the
    adaptor's own results in the order they happened relative to the tick's evaluation"""
    dis = {r["name"] for r in scn["config"]["rulesets"] if (r.get("drop-in") or {}).get("disable-on-drop-in")}
    if not dis:
        return None
    _, tks = engine.split_ticks(events)
    active, out = {}, {n: set() for n in dis}
    for ti, evs in enumerate(tks):
        tgt = {o["tag"]: o.get("_target") for o in (scn["ticks"][ti].get("dropins", []) if ti < len(scn["ticks"]) else []) if o["op"] == "add"}
        for e in evs:
            if e.get("ev") == "dropin_result":
                if e["op"] == "add" and e["ok"]:
                    active[e["tag"]] = tgt.get(e["tag"])
                elif e["op"] == "remove" or (e["op"] == "add" and not e["ok"]):
                    active.pop(e["tag"], None)
        for n in dis:
            if n in active.values():
                out[n].add(ti)
    return out


_cases_scripted = cases


def cases(seed, tier):
    yield from _cases_scripted(seed, tier)
    yield from real_cases(seed, 300 if tier == "quick" else 2500)
    yield from restart_cases(seed, 60 if tier == "quick" else 500)
    yield from disabled_cases(seed, 150 if tier == "quick" else 1500)


def judge(case, results):
    if case.meta.get("real"):
        return judge_real(case, results)
    if case.meta.get("restart"):
        return judge_restart(case, results)
    scn = case.scns[0]
    res = results[0]
    v = core.Verdict()
    cr = core.classify_crash(res) if res.crashed else core.exception_outcome(res)
    if cr:
        v.bad("crash:" + cr[0], cr[1], cr[2])
        return v
    live, ws = live_sets(scn)
    excused = None
    if scn.get("file_faults"):
        excused = {name: [{f["cg"] for f in scn["file_faults"] if f["from_tick"] <= ti <= f["to_tick"]} for ti in range(len(per))] for name, per in live.items()}
    viol, st = engine.check(scn["config"], res.events, live=live, nticks=len(scn["ticks"]), excused=excused, disabled=disabled_ticks(scn, res.events))
    st["open_faults_fired"] = sum(1 for e in res.events if e.get("ev") == "open_fault")
    st["dropin_requests"] = sum(1 for e in res.events if e.get("ev") == "dropin")
    st["dropin_adds_applied"] = sum(1 for e in res.events if e.get("ev") == "dropin_result" and e["op"] == "add" and e["ok"])
    st["dropin_adds_rolled_back"] = sum(1 for e in res.events if e.get("ev") == "dropin_result" and e["op"] == "add" and not e["ok"])
    # a cgroup removed and re-created between two ticks is, for the property ("absent for at least one tick"),
    # allowed to keep or lose its state: the oracle keys instances by path, so only flag instance changes
    for prop, rule, disc, detail in viol:
        if prop in OWN or prop == "ANY":
            v.bad(rule, disc, detail)
        else:
            v.count("other_property_divergence:" + prop + ":" + rule)
    # a drop-in is a copy of the ruleset it targets: on a ruleset with a ruleset-level cgroup it, too, runs once per matching
    # cgroup (its plugins see that cgroup), never as one unscoped ruleset
    scoped = {r["name"] for r in scn["config"]["rulesets"] if r.get("cgroup")}
    utgt = {o["_u"]: o["_target"] for t in scn["ticks"] for o in t.get("dropins", []) if o.get("_u")}
    if scoped and utgt:
        _, tks = engine.split_ticks(res.events)
        for ti, evs in enumerate(tks):
            for e in evs:
                if e.get("ev") == "plugin" and e["m"] == "run" and e["id"].startswith("x"):
                    u = e["id"].rsplit(".", 1)[0]
                    if utgt.get(u) in scoped:
                        v.count("dropin_runs_on_scoped_ruleset")
                        if e.get("rcg") is None or (ti < len(live[utgt[u]]) and e["rcg"] not in live[utgt[u]][ti]):
                            v.bad("drop-in-not-scoped", "", "tick %d: plugin %s of a drop-in for ruleset %s (cgroup %s) ran for %r; matching cgroups %s" % (
                                ti, e["id"], utgt[u], [r["cgroup"] for r in scn["config"]["rulesets"] if r["name"] == utgt[u]][0], e.get("rcg"), sorted(live[utgt[u]][ti])))
                            break
    for k, n in st.items():
        v.count(k, n)
    v.nontrivial = st["inst_dropped"] > 0 and st["inst_created"] > 1 and st["chain_starts"] > 0
    v.sig = core.scn_hash([scn["config"], scn["scripts"], scn["ticks"]])
    return v


def sample(case, v):
    s = case.scns[0]
    if case.meta.get("restart"):
        return {"case": case.id, "restart_action": case.meta, "observed": v.stats}
    if case.meta.get("real"):
        return {"case": case.id, "real_kill_action": case.meta["plugin"], "cgroups": case.meta["names"], "observed": v.stats}
    return {"case": case.id, "ruleset_cgroup": case.meta, "initial_cgroups": sorted(s["cgroups"].keys()),
            "ops_per_tick": [[(o["op"], o["cg"]) for o in t.get("ops", [])] for t in s["ticks"]], "observed": v.stats}
