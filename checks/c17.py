"""C17 Kill accounting: xattrs, counter, kmsg record and return value match the deed."""
import random
import re

from vlib import core, world as W, model, killgen as KG
from oracles import killtrace as KT, kill as K
from checks.c04 import KMSG

ID = "C17"
LEVEL = "exploration"
FLAVORS = ["asan"]
RULE = ("random trees and kill plugins with pre-existing trusted./user. oomd_ooms / oomd_kill xattr values, 0/1/19-21/45 pids and nested "
        "descendants, partial kill failures (ESRCH/EPERM per pid), lingering pids that stay listed and are re-signalled on the retry "
        "rounds, trusted.* xattrs refused (EPERM/ENOTSUP), silence-logs settings, always_continue, dry, kernelkill, multi-poll prekill hooks, 3-8 ticks of repeated "
        "kills; per attempt: one uuid on both namespaces, ooms = old+1, kill = old + #kill(2) that returned 0; per invocation: exactly one "
        "`oomd kill` kmsg line naming victim/ruleset/group/plugin iff a process was signalled, oomd.kills total == number of such "
        "invocations, next scripted action runs iff nothing was signalled or always_continue, ASYNC_PAUSED exactly while a hook invocation is pending or on kill_by_pg_scan's sampling tick. "
        "non-trivial = >=1 attempt with a successful kill and >=1 attempt or invocation without; distinct by scenario hash")
ASSUMPTIONS = ["xattrs emulated by the harness keyed by inode; kill(2) interposed with scripted results",
               "kernelkill attempts are judged on uuid/ooms only (the kernel, not oomd, sends those signals)"]


def cases(seed, tier):
    n = 1000 if tier == "quick" else 6000
    rng = random.Random(seed * 1000003 + 17)
    for i in range(n):
        cid = "C17-%d-%d" % (seed, i)
        plugin = rng.choice(KG.PLUGINS)
        pidcounts = rng.choice([(0, 1, 2, 3), (1, 19, 20, 21), (0, 2, 45), (1, 2, 5)])
        cgs, info, pids = KG.gen_tree(rng, depth=rng.choice([1, 2, 3]), fan=3, pidcounts=pidcounts, unpop_p=0.1)
        for rel in info:
            if rng.random() < 0.4:
                xa = cgs[rel].setdefault("xattrs", {})
                for ns in ("trusted.", "user."):
                    if rng.random() < 0.8:
                        xa[ns + "oomd_ooms"] = str(rng.choice([0, 1, 7, 99, 2**31 - 20000]))
                    if rng.random() < 0.8:
                        xa[ns + "oomd_kill"] = str(rng.choice([0, 3, 1000, 2**31 - 20000]))
                    if rng.random() < 0.3:
                        xa[ns + "oomd_kill_uuid"] = "stale"
            if rng.random() < 0.12:
                # user.* attributes of a delegated cgroup are writable by its owner: whatever text is in them, the kill goes
                # ahead and oomd survives (what the counters are then set to is not judged)
                xa = cgs[rel].setdefault("xattrs", {})
                xa[rng.choice(["user.oomd_ooms", "user.oomd_kill", "trusted.oomd_ooms", "trusted.oomd_kill"])] = rng.choice(
                    ["abc", "12x", " 7", "99999999999999999999", "-", "1.5", "0x10", "2147483647", "-2147483648"])
        pats = KG.patterns_for(rng, info)
        args = KG.kill_args(rng, plugin, pats, dry=rng.random() < 0.1)
        if rng.random() < 0.15:
            args["kernelkill"] = "true"
            if rng.random() < 0.5:
                KG.kernelkill_inner_nodes(rng, cgs, info, args)
        allpids = [p for r in info for p in info[r]["pids"]]
        kill = {"default": "ok", "pids": {}}
        m = rng.random()
        if m < 0.5:
            for p in allpids:
                if rng.random() < 0.45:
                    kill["pids"][str(p)] = rng.choice(["ESRCH", "EPERM"])
        elif m < 0.6:
            kill["default"] = rng.choice(["ESRCH", "EPERM"])
        linger = {}
        for p in allpids:
            if rng.random() < 0.08:
                linger[str(p)] = rng.randint(1, 3)
        extra = {}
        sl = rng.choice([None, None, "plugins", "engine", "engine,plugins"])
        if sl:
            extra["silence-logs"] = sl
        ticks = [{"step_ns": 10**9} for _ in range(rng.randint(3, 5))]
        hooks, hspec = None, {}
        removed = set()
        if rng.random() < 0.25:
            # a prekill hook that needs a few polls: the action must answer ASYNC_PAUSED exactly while it is pending
            hooks = [{"name": "v_hook", "args": {"id": "h0", "cgroup": rng.choice(["/", "wl/*", "wl"])}}]
            hspec = {"h0": [{"polls": rng.randint(0, 3)} for _ in range(4)]}
            extra["prekill_hook_timeout"] = str(rng.choice([1, 3, 10]))
            ticks = [{"step_ns": 10**9} for _ in range(rng.randint(5, 8))]
            if rng.random() < 0.5:
                # processes exit on their own while the hook runs: the victim chosen as populated is empty when its turn comes,
                # which is still a wet attempt (marked, ooms+1, kill+0) followed by the next candidate
                for t in range(1, len(ticks)):
                    for rel in info:
                        if info[rel]["pids"] and not info[rel]["children"] and rng.random() < 0.25:
                            ticks[t].setdefault("ops", []).append({"op": "write", "cg": rel, "file": "cgroup.procs", "text": ""})
                            ticks[t]["ops"].append({"op": "write", "cg": rel, "file": "cgroup.events", "text": "populated 0\nfrozen 0\n"})
                            ticks[t]["ops"].append({"op": "write", "cg": rel, "file": "pids.current", "text": "0\n"})
            elif rng.random() < 0.6:
                # the victim (a leaf) is removed outright while its hook runs: nothing was signalled, so the action answers CONTINUE
                # (or goes on to the next candidate), never STOP
                for t in range(1, len(ticks)):
                    for rel in info:
                        if rel != "wl" and not info[rel]["children"] and rng.random() < 0.2 and rel not in removed:
                            ticks[t].setdefault("ops", []).append({"op": "rm", "cg": rel})
                            removed.add(rel)
        names = (KG.LONG_RS, KG.LONG_GROUP) if rng.random() < 0.08 else ("rk", "g")
        scn = KG.base_scn(cid, cgs, KG.kill_config(plugin, args, extra, hooks=hooks, rs_name=names[0], group=names[1]), ticks=ticks, kill=kill, linger=linger, hooks=hspec)
        if rng.random() < 0.15:
            scn["xattr_fail"] = rng.choice(["EPERM", "ENOTSUP"])
        if rng.random() < 0.12 and len(ticks) >= 3:
            # another kill plugin comes into being while the daemon runs (a drop-in brings one along; it matches nothing, so it
            # only ever answers CONTINUE): the kills counted so far stay counted
            scn["config"]["rulesets"][0]["drop-in"] = {"actions": True}
            late = {"name": rng.choice(KG.PLUGINS), "args": {"cgroup": "no-such-slice/*"}}
            if late["name"] == "kill_by_pressure":
                late["args"]["resource"] = "io"
            ticks[rng.randint(1, len(ticks) - 1)]["dropins"] = [{"op": "add", "tag": "late.json", "config": {"rulesets": [{"name": names[0], "actions": [late]}]}}]
        if not args.get("kernelkill") and rng.random() < 0.15:
            # transient cgroups: the leaf is rmdir'ed by its manager the moment its last process was signalled, i.e. between two
            # passes of one kill attempt; the completion xattr cannot be written any more, the deed is accounted for all the same
            scn["vanish_after_kill"] = True
        yield core.Case(cid, [scn], {"plugin": plugin, "args": args, "names": names})


def to_int(s):
    return int(s) if s not in (None, "") else 0


def judge(case, results):
    v = core.Verdict()
    res, scn = results[0], case.scns[0]
    cr = core.classify_crash(res) if res.crashed else core.exception_outcome(res)
    if cr:
        v.bad("crash:" + cr[0], cr[1], cr[2])
        return v
    args, plugin = case.meta["args"], case.meta["plugin"]
    dry = K.parse_bool(args.get("dry"))
    kk = K.parse_bool(args.get("kernelkill"))
    always = K.parse_bool(args.get("always_continue"))
    xfail = scn.get("xattr_fail")
    invs = KT.parse(res.events)
    # emulated xattr state per cgroup path (no removals in these scenarios)
    xa = {rel if rel != "/" else "": dict(spec.get("xattrs", {})) for rel, spec in scn["cgroups"].items()}
    uuids = set()
    expect_kills = 0
    good = bad_ = 0
    outstanding = 0
    vanished_at = {}
    for e in res.events:
        if e.get("ev") == "vanish":
            vanished_at.setdefault(e["cg"], e["seq"])
    for inv in invs:
        killlines = [m for m in (KMSG.match(l) for l in inv.kmsg) if m]
        # ---- ASYNC_PAUSED exactly while a prekill hook is pending (or on kill_by_pg_scan's first sampling tick)
        for h in inv.hooks:
            if h["m"] == "fire":
                outstanding += 1
            elif h["m"] == "destroy":
                outstanding -= 1
        ran_now = inv.pre is not None or (inv.tick > 0 and invs[inv.tick - 1].ret == "A")
        if ran_now and inv.ret is not None:
            sampling = plugin == "kill_by_pg_scan" and inv.pre is not None and not inv.attempts and not inv.hooks and not killlines
            if outstanding > 0 and inv.ret != "A":
                v.bad("return-value", "hook-pending-not-async", "tick %d: a prekill hook invocation is still pending but the action returned %s" % (inv.tick, inv.ret))
            if outstanding == 0 and inv.ret == "A" and not sampling:
                v.bad("return-value", "async-without-reason", "tick %d: action returned ASYNC_PAUSED with no hook pending (attempts %s)" % (inv.tick, [a.victim for a in inv.attempts]))
            if inv.ret == "A":
                v.count("async_returns")
        if dry:
            if inv.attempts:
                v.bad("dry-attempt", "", "dry run marked a victim")
            if len(killlines) > 1 or any(not m.group(4) for m in killlines):
                v.bad("dry-kmsg", "", "tick %d: dry kmsg lines %s" % (inv.tick, inv.kmsg))
            if killlines:
                good += 1
                if inv.post is not None and not always:
                    v.bad("return-value", "dry", "tick %d: dry run selected %s but the next action ran" % (inv.tick, killlines[0].group(1)))
            elif inv.pre is not None:
                bad_ += 1
                if inv.post is None and not (plugin == "kill_by_pg_scan" and inv.ret == "A") and outstanding == 0:
                    v.bad("return-value", "dry-nothing", "tick %d: nothing selected but the next action did not run" % inv.tick)
            continue
        nsignal = 0
        # an attempt is known by what it does to the victim; whatever part of it happens without (or before) the uuid / ooms
        # marking of that cgroup is an attempt the xattrs do not record
        for e in inv.stray:
            if e["ev"] == "kill" or (e["ev"] == "write" and e["path"].rsplit("/", 1)[1] in ("cgroup.kill", "cgroup.freeze")):
                v.bad("unmarked-attempt", e["ev"] if e["ev"] == "kill" else e["path"].rsplit("/", 1)[1],
                      "tick %d: %s before any cgroup was marked with an attempt id" % (inv.tick, {k: e[k] for k in e if k not in ("seq", "t")}))
        for a in inv.attempts:
            for e in a.writes:
                d, f = e["path"].rsplit("/", 1)
                if f in ("cgroup.kill", "cgroup.freeze") and KT.cgrel(d) != a.victim:
                    v.bad("unmarked-attempt", f, "tick %d: write %r to %s although the cgroup marked with the attempt id is %s" % (inv.tick, e["data"][:10], e["path"], a.victim))
        for a in inv.attempts:
            st = xa.setdefault(a.victim, {})
            # uuid
            us = [e for e in a.setx if e["name"].endswith("oomd_kill_uuid")]
            vals = set(e["val"] for e in us)
            names = sorted(e["name"] for e in us)
            if len(vals) != 1 or names != ["trusted.oomd_kill_uuid", "user.oomd_kill_uuid"] or "" in vals:
                v.bad("uuid-xattr", "", "tick %d victim %s: uuid xattr writes %s" % (inv.tick, a.victim, [(e["name"], e["val"]) for e in us]))
            if a.uuid in uuids:
                v.bad("uuid-reused", "", "tick %d victim %s: attempt id %s already used" % (inv.tick, a.victim, a.uuid))
            uuids.add(a.uuid)
            nok = len(a.ok_kills)
            for ns in ("trusted.", "user."):
                failing = xfail and ns == "trusted."
                for suffix, delta in (("oomd_ooms", 1), ("oomd_kill", nok)):
                    evs = [e for e in a.setx if e["name"] == ns + suffix]
                    if suffix == "oomd_kill" and a.victim in vanished_at and a.events and a.events[0]["seq"] < vanished_at[a.victim]:
                        v.count("victims_gone_before_completion_xattr")
                        continue  # the directory vanished during this attempt: nothing left to write the kill count to
                    if suffix == "oomd_kill" and kk:
                        for e in evs:
                            if e["ret"] == 0:
                                st[ns + suffix] = e["val"]
                        continue
                    if not re.fullmatch(r"\d{1,9}", st.get(ns + suffix) or "0"):
                        v.count("dontcare_garbage_counter_xattr")
                        for e in evs:
                            if e["ret"] == 0:
                                st[ns + suffix] = e["val"]
                        continue
                    old = to_int(st.get(ns + suffix))
                    if len(evs) != 1:
                        v.bad("xattr-count", suffix, "tick %d victim %s: %d writes of %s" % (inv.tick, a.victim, len(evs), ns + suffix))
                        continue
                    e = evs[0]
                    if failing:
                        continue
                    if e["ret"] != 0 or e["val"] != str(old + delta):
                        v.bad("xattr-delta", suffix, "tick %d victim %s: %s went %s -> %s; expected %d (+%d; %d kill(2) calls returned 0 of %d)" % (
                            inv.tick, a.victim, ns + suffix, old, e["val"], old + delta, delta, nok, len(a.kills)))
                    st[ns + suffix] = e["val"]
            if (nok > 0) or (kk and any(e["path"].endswith("/cgroup.kill") for e in a.writes)):
                nsignal += 1
                victim = a.victim
        if nsignal:
            good += 1
            expect_kills += nsignal
            if len(killlines) != nsignal:
                v.bad("kmsg-count", "signalled", "tick %d: %d victims signalled but kmsg kill lines: %s" % (inv.tick, nsignal, inv.kmsg))
            elif killlines:
                m = killlines[0]
                rsn, grn = case.meta.get("names", ("rk", "g"))
                if m.group(1) != victim or m.group(2) != rsn or m.group(3) != grn or m.group(5) != plugin or m.group(4):
                    v.bad("kmsg-fields", "", "tick %d: kmsg line %r does not name victim=%s ruleset=rk group=g plugin=%s" % (inv.tick, inv.kmsg, victim, plugin))
            if (inv.post is not None) != always:
                v.bad("return-value", "signalled", "tick %d: processes of %s were signalled, always_continue=%s, but next action ran=%s" % (
                    inv.tick, victim, always, inv.post is not None))
        else:
            if killlines:
                v.bad("kmsg-count", "nothing-signalled", "tick %d: nothing signalled but kmsg has %s" % (inv.tick, inv.kmsg))
            ran = inv.pre is not None or (inv.tick > 0 and invs[inv.tick - 1].ret == "A")
            if ran:
                bad_ += 1
                if inv.post is None and not (plugin == "kill_by_pg_scan" and inv.tick == 0) and outstanding == 0:
                    v.bad("return-value", "nothing-signalled", "tick %d: nothing signalled but the next action did not run (attempts %s)" % (
                        inv.tick, [a.victim for a in inv.attempts]))
    got = res.end.get("stats", {}).get("oomd.kills")
    if got != expect_kills:
        v.bad("kills-counter", "dry" if dry else "wet", "oomd.kills=%s, invocations that signalled a process: %d" % (got, expect_kills))
    v.count("kill_plugins_created_at_run_time", sum(1 for e in res.events if e.get("ev") == "dropin_result" and e.get("ok")))
    v.count("signalling_invocations", good)
    v.count("non_signalling_invocations", bad_)
    v.count("plugin:" + plugin)
    v.nontrivial = good > 0 and bad_ > 0
    v.sig = core.scn_hash(scn)
    return v


def sample(case, v):
    s = case.scns[0]
    return {"case": case.id, "plugin": case.meta["plugin"], "args": case.meta["args"],
            "preexisting_xattrs": {k: c["xattrs"] for k, c in s["cgroups"].items() if c.get("xattrs")},
            "kill_results": s.get("kill"), "linger": s.get("linger"), "observed": v.stats}
