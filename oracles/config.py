"""Reference for configuration validity (C12): per-plugin argument tables (name, type, required, range)
taken from docs/core_plugins.md / docs/auxiliary_plugins.md, and exact readings of numeric strings.
A reading is VALID, INVALID or DONTCARE (forms the documentation does not pin down: surrounding
whitespace, explicit '+', negative sizes)."""
import re
from fractions import Fraction as F

VALID, INVALID, DONTCARE = "valid", "invalid", "dontcare"
INT_MIN, INT_MAX = -(1 << 31), (1 << 31) - 1
I64_MIN, I64_MAX = -(1 << 63), (1 << 63) - 1

_INT = re.compile(r"^-?[0-9]+$")
_FLOAT = re.compile(r"^-?([0-9]+\.?[0-9]*|\.[0-9]+)([eE][+-]?[0-9]+)?$")


_HEXFLOAT = re.compile(r"^-?0[xX]([0-9a-fA-F]+\.?[0-9a-fA-F]*|\.[0-9a-fA-F]+)([pP][+-]?[0-9]{1,4})?$")


def _pre(s):
    """strip forms we do not judge; returns (core, dontcare_flag)"""
    dc = False
    if s != s.strip(" \t\n"):
        dc = True
    t = s.strip(" \t\n")
    if t.startswith("+"):
        dc = True
        t = t[1:]
    return t, dc


def read_int(s, lo=INT_MIN, hi=INT_MAX):
    """-> (status, value)"""
    t, dc = _pre(s)
    if not _INT.match(t):
        return INVALID, None
    v = int(t)
    if v < lo or v > hi:
        return INVALID, None
    return (DONTCARE if dc else VALID), v


def read_float(s, single=False):
    t, dc = _pre(s)
    if not _FLOAT.match(t):
        if _HEXFLOAT.match(t):
            return DONTCARE, None  # C hexadecimal floating notation: an exact, if unusual, reading
        return INVALID, None
    em = re.search(r"[eE]([+-]?)(\d+)$", t)
    if em and len(em.group(2)) > 5:
        return (DONTCARE if em.group(1) == "-" else INVALID), None
    v = F(t)
    lim = F(2) ** (128 if single else 1024)
    if abs(v) >= lim:
        return INVALID, None
    tiny = F(2) ** (-126 if single else -1022)
    if v != 0 and abs(v) < tiny:
        return DONTCARE, v  # underflow: strtod may report ERANGE or 0
    return (DONTCARE if dc else VALID), v


def read_bool(s):
    if s in ("true", "True", "1"):
        return VALID, True
    if s in ("false", "False", "0"):
        return VALID, False
    return INVALID, None


UNITS = {"k": 1 << 10, "m": 1 << 20, "g": 1 << 30, "t": 1 << 40}
_SIZE_TOK = re.compile(r"([0-9]+(\.[0-9]+)?)([kmgt]?)")
_SIZE_TOK_LIBERAL = re.compile(r"([0-9]+\.?[0-9]*|\.[0-9]+)(e[+-]?[0-9]+)?([kmgt]?)")
_SIZE_TOK_HEX = re.compile(r"0x([0-9a-f]+\.?[0-9a-f]*|\.[0-9a-f]+)(p[+-]?[0-9]{1,3})?([kmgt]?)")


def _tokens(t, rx, unit_group):
    pos, out = 0, []
    while pos < len(t):
        m = rx.match(t, pos)
        if not m or m.end() == pos:
            return None
        out.append(m)
        pos = m.end()
    return out


def read_size(s):
    """documented: combinations of K|M|G|T suffixed components, e.g. `1.5M 32K 512` (last may be bare bytes).
    Undocumented but harmless forms (`.5K`, `3.K`, exponent notation, sign, empty) are don't-care as long as
    the value is finite and fits; overflowing / non-finite / malformed text is invalid."""
    terms = s.split()
    if len(terms) > 1 and any(x[-1:].lower() not in "kmgt" for x in terms[:-1]):
        # a bare number in front of further components ("512 32K"): the documentation only shows the bare byte count last
        # ("4K 2048"); oomd glues it to the next component (51232K). Undocumented either way: not judged.
        return DONTCARE, None
    t = re.sub(r"\s+", "", s).lower()
    neg = dc = False
    if t.startswith("+"):
        t, dc = t[1:], True
    elif t.startswith("-"):
        t, neg = t[1:], True
    if not t:
        return DONTCARE, F(0)
    strict = _tokens(t, _SIZE_TOK, 3)
    if strict is not None and all(m.group(3) or i == len(strict) - 1 for i, m in enumerate(strict)):
        tot = sum(F(m.group(1)) * UNITS.get(m.group(3), 1) for m in strict)
        if tot > I64_MAX:
            return INVALID, None
        if neg:
            return DONTCARE, -tot
        return (DONTCARE if dc else VALID), tot
    if re.search(r"[+-]", t) and not re.search(r"e[+-]", t):
        # signs in front of inner components ("1G+5M", "--0m"): strtold reads them; harmless as long as no
        # component is actually negative (those are rejected by oomd and invalid here)
        parts = re.findall(r"([+-]?)((?:[0-9]+\.?[0-9]*|\.[0-9]+)[kmgt]?)", t)
        if "".join(a + b for a, b in parts) == t and parts:
            tot = F(0)
            for sign, body in parts:
                m = _SIZE_TOK_LIBERAL.fullmatch(body)
                val = F(m.group(1)) * UNITS.get(m.group(3), 1)
                if sign == "-" and val != 0:
                    return INVALID, None
                tot += val
            return (INVALID, None) if tot > I64_MAX else (DONTCARE, None)
    lib = _tokens(t, _SIZE_TOK_LIBERAL, 3)
    if lib is None:
        # hexadecimal notation (accepted by strtold), possibly mixed with decimal components
        pos, okhex, tot = 0, True, F(0)
        while pos < len(t):
            m = _SIZE_TOK_HEX.match(t, pos) or _SIZE_TOK_LIBERAL.match(t, pos)
            if not m or m.end() == pos:
                okhex = False
                break
            if m.re is _SIZE_TOK_HEX:
                mant = m.group(1)
                ip, _, fp = mant.partition(".")
                val = F(int(ip or "0", 16)) + (F(int(fp, 16), 16 ** len(fp)) if fp else 0)
                if m.group(2):
                    e = int(m.group(2)[1:])
                    val = val * (F(2) ** e)
                tot += val * UNITS.get(m.group(3), 1)
            else:
                e = m.group(2)
                if e and len(e) > 6:
                    return INVALID, None
                tot += F(m.group(1) + (e or "")) * UNITS.get(m.group(3), 1)
            pos = m.end()
        if okhex:
            return (INVALID, None) if tot > I64_MAX else (DONTCARE, None)
        return INVALID, None
    tot = F(0)
    for m in lib:
        e = m.group(2)
        if e and len(e) > 6:
            if "-" in e:
                continue
            return INVALID, None
        tot += F(m.group(1) + (e or "")) * UNITS.get(m.group(3), 1)
    if tot > I64_MAX:
        return INVALID, None
    return DONTCARE, (-tot if neg else tot)


def read_size_or_percent(s, total):
    if s.endswith("%"):
        st, v = read_int(s[:-1], 0, 100)
        if st == INVALID:
            # "N%" where N is not an integer in range
            return INVALID, None
        return st, F(total) * v / 100
    st, v = read_int(s, I64_MIN, I64_MAX)
    if st != INVALID and s != s.strip(" \t\n"):
        # "5 " may be read as megabytes (bare number) or as bytes (size grammar): undocumented
        return DONTCARE, None
    if st != INVALID:
        if v < 0 or v > (I64_MAX >> 20):
            return (INVALID if v > (I64_MAX >> 20) else DONTCARE), None
        return st, F(v) * (1 << 20)  # bare number = megabytes
    return read_size(s)


def read_cgroup(s):
    return (VALID, s)


def read_string(s):
    return (VALID, s)


def read_nonempty(s):
    return (VALID, s) if s else (INVALID, None)


def read_resource(s):
    return (VALID, s) if s in ("io", "memory") else (INVALID, None)


T = {
    "int": lambda s: read_int(s),
    "uint": lambda s: read_int(s, 0, INT_MAX),
    "pctl": lambda s: read_int(s, 0, 99),
    "int64": lambda s: read_int(s, I64_MIN, I64_MAX),
    "ms": lambda s: read_int(s, I64_MIN, I64_MAX),
    "float": lambda s: read_float(s, True),
    "double": lambda s: read_float(s, False),
    "bool": read_bool,
    "sizepct": lambda s: read_size_or_percent(s, 16 << 30),
    "cgroup": read_cgroup,
    "string": read_string,
    "nonempty": read_nonempty,
    "resource": read_resource,
}

KILL_BASE = {"cgroup": "cgroup", "recursive": "bool", "post_action_delay": "uint", "dry": "bool", "always_continue": "bool",
             "debug": "bool", "kernelkill": "bool", "reap_memory": "bool"}


def _k(extra):
    d = dict(KILL_BASE)
    d.update(extra)
    return d


# plugin -> (args {name: type}, required [names])
PLUGINS = {
    "pressure_rising_beyond": ({"cgroup": "cgroup", "resource": "resource", "threshold": "int", "duration": "int", "fast_fall_ratio": "float"},
                               ["resource", "threshold", "duration"]),
    "pressure_above": ({"cgroup": "cgroup", "resource": "resource", "threshold": "int", "duration": "int"}, ["resource", "threshold", "duration"]),
    "memory_reclaim": ({"cgroup": "cgroup", "duration": "int"}, ["duration"]),
    "swap_free": ({"threshold_pct": "int", "swapout_bps_threshold": "int64"}, ["threshold_pct"]),
    "exists": ({"cgroup": "cgroup", "negate": "bool", "debug": "bool"}, []),
    "nr_dying_descendants": ({"cgroup": "cgroup", "count": "uint", "lte": "bool", "debug": "bool"}, ["count"]),
    "dump_cgroup_overview": ({"cgroup": "cgroup", "always": "bool"}, []),
    "kill_by_memory_size_or_growth": (_k({"size_threshold": "uint", "growing_size_percentile": "pctl", "min_growth_ratio": "float"}), []),
    "kill_by_swap_usage": (_k({"threshold": "sizepct", "biased_swap_kill": "bool"}), []),
    "kill_by_pressure": (_k({"resource": "resource"}), ["resource"]),
    "kill_by_io_cost": (_k({}), []),
    "kill_by_pg_scan": (_k({}), []),
    "senpai": ({"cgroup": "cgroup", "limit_min_bytes": "int64", "limit_max_bytes": "int64", "interval": "int64", "pressure_ms": "ms",
                "pressure_pct": "double", "io_pressure_pct": "double", "max_probe": "double", "max_backoff": "double", "coeff_probe": "double",
                "coeff_backoff": "double", "immediate_backoff": "bool", "memory_high_timeout_ms": "ms", "swap_threshold": "double",
                "swapout_bps_threshold": "int64", "swap_validation": "bool", "modulate_swappiness": "bool", "log_interval": "int64"}, ["cgroup"]),
    "systemd_restart": ({"service": "nonempty", "post_action_delay": "uint", "dry": "bool"}, ["service"]),
    "memory_above": ({"cgroup": "cgroup", "threshold": "sizepct", "threshold_anon": "sizepct", "duration": "int", "debug": "bool"}, ["duration"]),
}


def plugin_validity(name, args):
    """-> (status, reason)"""
    if name not in PLUGINS:
        return INVALID, "unknown plugin"
    table, req = PLUGINS[name]
    status = VALID
    for r in req:
        if r not in args:
            return INVALID, "missing required " + r
    if name == "memory_above":
        if "threshold" not in args and "threshold_anon" not in args:
            return INVALID, "neither threshold nor threshold_anon"
        if "threshold" in args and "threshold_anon" in args:
            # documented: only threshold_anon is effective; whether a bad `threshold` still matters is not stated
            st, _ = T["sizepct"](args["threshold"])
            if st != VALID:
                status = DONTCARE
    for k, val in args.items():
        if k not in table:
            return INVALID, "unknown argument " + k
        if name == "memory_above" and k == "threshold" and "threshold_anon" in args:
            continue
        st, _ = T[table[k]](val)
        if st == INVALID:
            return INVALID, "bad value for %s (%s): %r" % (k, table[k], val)
        if st == DONTCARE:
            status = DONTCARE
    return status, ""
