"""C03 Victim order: prefer > normal > avoid, oom.group kept whole, fallback on failure."""
import itertools
import random

from vlib import core, world as W, model, killgen as KG
from oracles import killtrace as KT, path as P, kill as K, cgroup as CG

ID = "C03"
LEVEL = "exploration"
FLAVORS = ["asan"]
RULE = ("random trees (depth<=3) with prefer/avoid/both xattrs (trusted.* and user.*), memory.oom.group, populated flags, well separated "
        "and tie-heavy metric values, all five kill plugins, recursive on/off, scripted per-cgroup outcomes (success / every pid ESRCH), "
        "2-3 ticks, every twelfth case with a peer group of 17-40 siblings (sorting routines change algorithm above 16 elements); plus an exhaustive sweep of every (preference incl. both marks x oom.group x populated x outcome) assignment on all tree shapes with "
        "<=3 cgroups below the target. The observed sequence of attempted victims (uuid xattr markers at setxattr(2)) must be one of the "
        "sequences the documented walk allows (ties in (preference, metric) admit any order); in a fifth of the cases a prekill hook stays pending for "
        "0-3 ticks per victim, so the walk is suspended and resumed from its saved fallback stack, and the attempts of the whole chain are compared. "
        "non-trivial = >=2 attempts in one invocation (fallback) or a descent below the first level; distinct by scenario hash")
ASSUMPTIONS = ["metric reference from oracles/kill.py (exact rationals); ties within 1e-6 relative are don't-care",
               "kill(2) interposed; a cgroup's outcome is scripted through per-pid results"]


def mk_case(rng, cid, plugin, tie=False, depth=None, fan=None):
    depth = depth or rng.choice([1, 2, 3])
    cgs, info, pids = KG.gen_tree(rng, depth=depth, fan=fan or rng.choice([2, 3, 4]), tie=tie,
                                  pidcounts=(0, 1, 1, 2, 3), pref_p=0.35, oomgroup_p=0.2, unpop_p=0.3)
    pats = KG.patterns_for(rng, info)
    wide = bool(fan and fan > 15)
    if wide:
        pats = [rng.choice(["wl/*", "wl"])]
    args = KG.kill_args(rng, plugin, pats, recursive=wide or rng.random() < 0.7)
    args.pop("always_continue", None)
    kill = {"default": "ok", "pids": {}}
    # per-cgroup outcome: fail = every pid of the cgroup's own procs ESRCH
    for rel in info:
        if rng.random() < 0.45:
            for p in info[rel]["pids"]:
                kill["pids"][str(p)] = "ESRCH"
    nticks = rng.choice([2, 2, 3])
    ticks = [{"step_ns": 10**9, "ops": []}]
    for t in range(1, nticks):
        ops = []
        for r in info:
            if rng.random() < 0.8:
                old = CG.parse_kv(cgs[r]["files"]["memory.stat"])
                old["pgscan"] = old.get("pgscan", 0) + rng.choice([0, 0, rng.randint(1, 10**6)])
                ops.append({"op": "write", "cg": r, "file": "memory.stat", "text": W.memstat(old)})
                ops.append({"op": "write", "cg": r, "file": "io.stat", "text": KG.iostat_text(rng, 1 + t)})
                ops.append({"op": "write", "cg": r, "file": "memory.current", "text": "%d\n" % rng.randint(0, 1 << 34)})
        ticks.append({"step_ns": 10**9, "ops": ops})
    scn = KG.base_scn(cid, cgs, KG.kill_config(plugin, args), ticks=ticks, kill=kill)
    if rng.random() < 0.15:
        scn["dtype_unknown"] = True
    return core.Case(cid, [scn], {"plugin": plugin, "patterns": pats, "args": args})


def mk_hook_case(rng, cid):
    """a prekill hook that stays pending over one or more ticks: the walk is suspended with its fallback stack saved and must
    continue in the same order when it resumes (static world and static metrics, so the reference walk is the fire-tick one)"""
    plugin = rng.choice(["kill_by_pressure", "kill_by_swap_usage"])
    cgs, info, pids = KG.gen_tree(rng, depth=rng.choice([1, 2, 2]), fan=rng.choice([3, 4]), pidcounts=(1, 1, 2),
                                  pref_p=0.35, oomgroup_p=0.15, unpop_p=0.1)
    pats = rng.choice([["wl/*"], ["wl/*"], ["wl"], KG.patterns_for(rng, info)])
    args = KG.kill_args(rng, plugin, pats, recursive=rng.random() < 0.6)
    for k in ("always_continue", "threshold", "biased_swap_kill"):
        args.pop(k, None)
    kill = {"default": "ok", "pids": {}}
    for rel in info:
        if rng.random() < 0.7:
            for p in info[rel]["pids"]:
                kill["pids"][str(p)] = "ESRCH"
    hooks = [{"name": "v_hook", "args": {"id": "h0", "cgroup": rng.choice(["/", "wl", "wl/*"])}}]
    hspec = {"h0": [{"polls": rng.choice([0, 1, 1, 2, 3])} for _ in range(12)]}
    ticks = [{"step_ns": 10**9, "ops": []} for _ in range(rng.randint(8, 14))]
    scn = KG.base_scn(cid, cgs, KG.kill_config(plugin, args, {"prekill_hook_timeout": "1000"}, hooks=hooks), ticks=ticks, kill=kill, hooks=hspec)
    return core.Case(cid, [scn], {"plugin": plugin, "patterns": pats, "args": args, "hook": True})


def judge_hook(case, res, scn, v):
    args, plugin = case.meta["args"], case.meta["plugin"]
    pats = args["cgroup"].split(",")
    recursive = K.parse_bool(args.get("recursive"))
    params = CG.Params(scn)
    hist = CG.History(params)
    invs = KT.parse(res.events)
    w = model.World(scn)
    kill_res = scn.get("kill", {})
    chains = []  # [start tick, view, roots, temporal, [victims], [killed pids]]
    for ti, t in enumerate(scn["ticks"]):
        if ti >= len(invs):
            break
        inv = invs[ti]
        w.apply(t.get("ops"))
        view = CG.View(w.snapshot(), params)
        roots = [r for r in P.resolve_many(pats, view.w.dirs())]
        temporal = hist.step(view, queried_set(view, roots, recursive), ti)
        if inv.pre is not None:
            chains.append([ti, view, roots, temporal, [], 0])
        if not chains:
            continue
        chains[-1][4] += [a.victim for a in inv.attempts]
        chains[-1][5] += len(inv.hooks)
        killed = [k["pid"] for a in inv.attempts for k in a.ok_kills]
        if killed:
            model.apply_kills(w, killed)
    resumed = 0
    for ci, (ti, view, roots, temporal, observed, nhook) in enumerate(chains):
        def outcome(rel, view=view):
            for s_ in view.w.subtree(rel):
                for p in view.w.pids(s_):
                    if p > 0 and kill_res.get("pids", {}).get(str(p), kill_res.get("default", "ok")) == "ok":
                        return True
            return False
        walk = K.Walk(view, temporal, plugin, args, outcome)
        alts = walk.sequences(roots)
        v.count("invocations")
        if walk.overflow or walk.ambiguous:
            v.count("dontcare_invocations")
            continue
        allowed = set(tuple(a[0]) for a in alts)
        last = ci == len(chains) - 1
        ok = tuple(observed) in allowed or (last and any(a[:len(observed)] == tuple(observed) for a in allowed))
        if not ok:
            v.bad("victim-order", "across-prekill-hook", "chain started at tick %d, plugin %s args %s: attempted %s over the suspended chain; allowed "
                  "sequences (first 3 of %d): %s" % (ti, plugin, args, observed, len(allowed), sorted(allowed)[:3]))
            return v
        if len(observed) >= 2 and nhook:
            resumed += 1
    v.count("fallback_after_hook_resume", resumed)
    v.nontrivial = resumed > 0
    v.sig = core.scn_hash(scn)
    return v


def exhaustive_cases(seed, limit=None):
    """all trees with <=3 cgroups below `wl` x pref x oom.group x populated x outcome, kill_by_pressure (static metric)"""
    shapes = [
        ["a"], ["a", "b"], ["a", "a/x"], ["a", "b", "c"], ["a", "b", "a/x"], ["a", "a/x", "a/y"], ["a", "a/x", "a/x/z"],
    ]
    prefs = [None, "prefer", "avoid", "both"]
    out = []
    n = 0
    for shape in shapes:
        k = len(shape)
        for assign in itertools.product(itertools.product(prefs, (0, 1), (0, 1), (0, 1)), repeat=k):
            n += 1
            out.append((shape, assign))
    rng = random.Random(seed * 7919 + 3)
    if limit and len(out) > limit:
        out = rng.sample(out, limit)
    for idx, (shape, assign) in enumerate(out):
        cgs = {"/": W.root_cgroup(), "wl": W.cgroup(current=1 << 30)}
        kill = {"default": "ok", "pids": {}}
        pid = 100
        for j, (rel, (pref, og, pop, ok)) in enumerate(zip(shape, assign)):
            pr = (10.0 + 7 * j, 5.0 + 3 * j, 1.0, 10)
            xa = ({"trusted.oomd_prefer": "1"} if pref == "prefer" else {"user.oomd_avoid": "1"} if pref == "avoid" else
                  {"trusted.oomd_avoid": "1", "user.oomd_prefer": "1"} if pref == "both" else None)
            cgs["wl/" + rel] = W.cgroup(current=(1 + j) << 20, pids=[pid], populated=pop, mem_pressure=W.psi(full=pr), oom_group=og, xattrs=xa)
            if not ok:
                kill["pids"][str(pid)] = "ESRCH"
            pid += 1
        args = {"cgroup": "wl/*", "recursive": "true", "resource": "memory"}
        cid = "C03x-%d" % idx
        scn = KG.base_scn(cid, cgs, KG.kill_config("kill_by_pressure", args), nticks=1, kill=kill)
        yield core.Case(cid, [scn], {"plugin": "kill_by_pressure", "patterns": ["wl/*"], "args": args, "exhaustive": True})


def cases(seed, tier):
    n = 800 if tier == "quick" else 8000
    rng = random.Random(seed * 1000003 + 3)
    for i in range(n):
        plugin = KG.PLUGINS[i % 5]
        if i % 12 == 5:
            # wide peer groups: 17-40 siblings matched by the pattern, or below a cgroup that is descended into
            yield mk_case(rng, "C03-%d-%d" % (seed, i), plugin, tie=False, depth=rng.choice([1, 1, 2]), fan=rng.choice([17, 18, 24, 40]))
            continue
        yield mk_case(rng, "C03-%d-%d" % (seed, i), plugin, tie=(i % 7 == 0))
    for i in range(n // 5):
        yield mk_hook_case(rng, "C03h-%d-%d" % (seed, i))
    yield from exhaustive_cases(seed, limit=1500 if tier == "quick" else None)


def queried_set(view, roots, recursive):
    out = []
    stack = list(roots)
    while stack:
        r = stack.pop()
        if not view.exists(r):
            continue
        out.append(r)
        if recursive and not (view.oom_group(r) or False):
            stack.extend(view.w.children(r))
    return out


def judge(case, results):
    v = core.Verdict()
    res, scn = results[0], case.scns[0]
    cr = core.classify_crash(res) if res.crashed else core.exception_outcome(res)
    if cr:
        v.bad("crash:" + cr[0], cr[1], cr[2])
        return v
    if case.meta.get("hook"):
        return judge_hook(case, res, scn, v)
    args, plugin = case.meta["args"], case.meta["plugin"]
    pats = args["cgroup"].split(",")
    recursive = K.parse_bool(args.get("recursive"))
    params = CG.Params(scn)
    hist = CG.History(params)
    invs = KT.parse(res.events)
    w = model.World(scn)
    kill_res = scn.get("kill", {})
    multi = descents = 0
    for ti, t in enumerate(scn["ticks"]):
        w.apply(t.get("ops"))
        view = CG.View(w.snapshot(), params)
        roots = [r for r in P.resolve_many(pats, view.w.dirs())]
        temporal = hist.step(view, queried_set(view, roots, recursive), ti)
        inv = invs[ti] if ti < len(invs) else None
        if inv is None:
            break
        ran = inv.pre is not None or (ti > 0 and invs[ti - 1].ret == "A")
        observed = [a.victim for a in inv.attempts]
        if plugin == "kill_by_pg_scan" and ti == 0:
            if observed:
                v.bad("pgscan-first-tick-kill", "", "kill_by_pg_scan attempted %s on its first sampling tick" % observed)
            continue
        if not ran:
            continue

        def outcome(rel, view=view):
            for s in view.w.subtree(rel):
                for p in view.w.pids(s):
                    if p > 0 and kill_res.get("pids", {}).get(str(p), kill_res.get("default", "ok")) == "ok":
                        return True
            return False

        walk = K.Walk(view, temporal, plugin, args, outcome)
        alts = walk.sequences(roots)
        v.count("invocations")
        if walk.overflow or walk.ambiguous:
            v.count("dontcare_invocations")
        else:
            allowed = set(tuple(a[0]) for a in alts)
            if tuple(observed) not in allowed:
                ex = sorted(allowed)[:3]
                v.bad("victim-order", "recursive" if recursive else "flat",
                      "tick %d plugin %s args %s: attempted %s; allowed sequences (first 3 of %d): %s" % (ti, plugin, args, observed, len(allowed), ex))
                return v
            if len(observed) >= 2:
                multi += 1
            if any(o.count("/") >= 2 for o in observed) and recursive:
                descents += 1
        # fold oomd's own kills into the model
        killed = [k["pid"] for a in inv.attempts for k in a.ok_kills]
        if killed:
            model.apply_kills(w, killed)
    v.count("fallback_invocations", multi)
    v.count("descent_invocations", descents)
    v.nontrivial = multi > 0 or descents > 0
    v.sig = core.scn_hash(scn)
    return v


def coverage_extra(cases_, verdicts, tier):
    ex = sum(1 for c in cases_ if c.meta.get("exhaustive"))
    return {"exhaustive_small_tree_cases": ex, "exhaustive": False,
            "exhaustive_note": "small-tree sweep is complete (all 7 shapes x 32^k assignments) in the thorough tier, sampled (1500) in quick"}


def sample(case, v):
    s = case.scns[0]
    return {"case": case.id, "plugin": case.meta["plugin"], "args": case.meta["args"],
            "tree": {k: {"xattrs": c.get("xattrs"), "oom_group": c["files"].get("memory.oom.group"), "events": c["files"].get("cgroup.events")}
                     for k, c in s["cgroups"].items() if k != "/"}, "kill_results": s.get("kill"), "observed": v.stats}
