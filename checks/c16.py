"""C16 Cgroup path algebra and wildcard / pattern matching are exact."""
import itertools
import os
import random
import re
import shutil
import subprocess

from vlib import core, pure
from oracles import path as P

ID = "C16"
LEVEL = "exploration"
FLAVORS = ["asan"]
ALPHA = "ab/*?."
RULE = ("(1) every string over {a,b,/,*,?,.} up to length 4 (quick) / 5 (thorough) as a cgroup path under fs roots '/x/cg' and '/x/cg/': "
        "canonical relative/absolute form, getChild(c).getParent()==self for single components, == <=> equal absolute paths => equal "
        "hashes over all pairs up to length 3, and 3000 random derivation histories (hash / getChild / getParent / copy on one object, compared after every step "
        "with a freshly constructed path: ==, hash, unordered_set lookup and size), and 1500 pairs whose absolute paths are cut into (cgroup fs, relative path) at different components; (2) hasDescendantWithPrefixMatching for ALL (path, pattern) pairs with both strings up to "
        "length 3 (quick) / 4 (thorough) against an independent recursive matcher (equal / ancestor of a possible match / descendant "
        "of a match, `*` = one whole component); (3) resolveWildcard on random real directory trees (names sharing prefixes, dot-names, "
        "regular files that match, a sibling directory whose name extends the fs root, fs roots whose own name contains glob characters, brace alternatives - overlapping ones and ones naming no directory) against a per-component fnmatch walk, result compared as a multiset; "
        "(4) comma-separated cgroup lists. Parts (1),(2) are exhaustive within the stated length and are complemented by 3000 random strings of length 6-14 (paths, equality pairs, pattern pairs). "
        "non-trivial = a query whose reference answer is non-empty/true; distinct by query")
ASSUMPTIONS = ["patterns containing '.' or '..' components are don't-care for resolution (they are not cgroup names)",
               "GLOB_BRACE syntax is outside the alphabet"]
SERIAL_JUDGE = True


def strings(maxlen):
    out = [""]
    for L in range(1, maxlen + 1):
        out += ["".join(t) for t in itertools.product(ALPHA, repeat=L)]
    return out


def cases(seed, tier):
    quick = tier != "thorough"
    yield core.Case("C16-paths", [], {"part": "paths", "maxlen": 4 if quick else 5, "seed": seed}, driver="custom")
    yield core.Case("C16-pairs", [], {"part": "pairs", "maxlen": 3 if quick else 4}, driver="custom")
    yield core.Case("C16-resolve", [], {"part": "resolve", "trees": 300 if quick else 5000, "seed": seed}, driver="custom")
    yield core.Case("C16-lists", [], {"part": "lists", "n": 400 if quick else 5000, "seed": seed}, driver="custom")


def run_batch(driver, flavor, scns):
    return []


def expect_abs(fs, s):
    fsn = fs[:-1] if len(fs) > 1 and fs.endswith("/") else fs
    rel = P.canon(s)
    return fsn + ("/" + rel if rel else ""), rel


def judge_paths(v, maxlen, seed=1):
    rng = random.Random(seed * 31 + 7)
    strs = strings(maxlen) + ["".join(rng.choice(ALPHA + "cd-_") for _ in range(rng.randint(6, 14))) for _ in range(3000)]
    qs = []
    for fs in ("/x/cg", "/x/cg/"):
        for s in strs:
            qs.append({"q": "path", "fs": fs, "p": s, "children": ["a", "b.", "*"]})
    # unusual spellings of the cgroup-fs root itself: the file-system root, doubled trailing slashes
    for fs in ("/", "/x/cg//", "//x//cg", "/x"):
        for s in strings(min(maxlen, 3)) + strs[-300:]:
            qs.append({"q": "path", "fs": fs, "p": s, "children": ["a", "b.", "*"]})
    small = strings(3)
    for a in small:
        for b in small:
            qs.append({"q": "eq", "fs": "/x/cg", "a": a, "b": b})
    longs = strs[-3000:]
    for _ in range(3000):
        a = rng.choice(longs)
        b = rng.choice([a, a + "/", "/" + a, a.replace("/", "//"), rng.choice(longs), a[:-1]])
        qs.append({"q": "eq", "fs": "/x/cg", "a": a, "b": b})
    # the same absolute path cut into (cgroup fs, relative path) at different components: equality and hashing go by the absolute path
    for _ in range(1500):
        comps = [rng.choice(["a", "b", "ab", "a.b", "*", "x1"]) for _ in range(rng.randint(1, 5))]
        i, j = rng.randint(0, len(comps)), rng.randint(0, len(comps))
        other = rng.random() < 0.3
        comps2 = list(comps)
        if other:
            comps2[rng.randrange(len(comps2))] = "zz"
        qs.append({"q": "eq", "fs": "/x/cg" + "".join("/" + c for c in comps[:i]), "a": "/".join(comps[i:]),
                   "fs2": "/x/cg" + "".join("/" + c for c in comps2[:j]), "b": "/".join(comps2[j:])})
    # derivation histories on one object: hash / getChild / getParent / copy in random order
    for _ in range(3000):
        ops = []
        for _k in range(rng.randint(3, 12)):
            x = rng.random()
            ops.append("h" if x < 0.35 else "p" if x < 0.6 else "copy" if x < 0.65 else "c:" + rng.choice(["a", "b", "ab", "b.", "*", "a/b", "a//b/", ""]))
        qs.append({"q": "pathseq", "fs": rng.choice(["/x/cg", "/x/cg/"]), "p": rng.choice(small[:400] + longs[:50]), "ops": ops})
    # random longer (path, pattern) pairs for the hook relation
    for _ in range(4000):
        a = rng.choice(longs)
        comps = P.split(a)
        b = "/".join(("*" if rng.random() < 0.3 else c) for c in comps[:rng.randint(0, len(comps) + 1)]) if rng.random() < 0.7 else rng.choice(longs)
        qs.append({"q": "match", "path": a, "pattern": b})
    res = pure.run_queries(qs)
    n = 0
    for q, (a, crash) in zip(qs, res):
        if crash or a is None or "uncaught" in (a or {}):
            ck = pure.crash_key(crash) if crash else ("uncaught-exception", a.get("uncaught", "?") if a else "?", str(a))
            v.bad("crash:" + ck[0], ck[1], "query %s\n%s" % (q, ck[2]))
            continue
        n += 1
        if q["q"] == "path":
            wabs, wrel = expect_abs(q["fs"], q["p"])
            if a["abs"] != wabs or a["rel"] != wrel or a["root"] != (wrel == "") or a["parts"] != P.split(q["p"]):
                v.bad("canonical-form", "", "CgroupPath(%r,%r): abs=%r rel=%r parts=%r; expected abs=%r rel=%r" % (q["fs"], q["p"], a["abs"], a["rel"], a["parts"], wabs, wrel))
            for c, ca in zip(q["children"], a["children"]):
                if ca["abs"] != wabs + "/" + c or ca["parent_is_self"] is not True or ca["parent_abs"] != wabs:
                    v.bad("child-parent-inverse", "", "CgroupPath(%r,%r).getChild(%r): abs=%r parent=%r (self %r)" % (q["fs"], q["p"], c, ca["abs"], ca["parent_abs"], wabs))
            if wrel:
                wpar = expect_abs(q["fs"], "/".join(P.split(q["p"])[:-1]))[0]
                if a.get("parent") != wpar:
                    v.bad("parent", "", "CgroupPath(%r,%r).getParent()=%r expected %r" % (q["fs"], q["p"], a.get("parent"), wpar))
        elif q["q"] == "pathseq":
            comps = P.split(q["p"])
            held = set()
            for k, (op, st) in enumerate(zip(q["ops"], a["steps"])):
                if op == "p":
                    comps = comps[:-1]
                elif op.startswith("c:"):
                    comps = comps + P.split(op[2:])
                elif op == "h":
                    held.add(tuple(comps))
                wabs = expect_abs(q["fs"], "/".join(comps))[0]
                if st["abs"] != wabs or not st["eq"] or not st["hash_eq"] or not st["found"]:
                    v.bad("derivation-history", "abs" if st["abs"] != wabs else "eq" if not st["eq"] else "hash" if not st["hash_eq"] else "container",
                          "CgroupPath(%r,%r) after ops %s: abs=%r (expected %r) ==fresh:%s hash==fresh:%s set-lookup agrees:%s" % (
                              q["fs"], q["p"], q["ops"][:k + 1], st["abs"], wabs, st["eq"], st["hash_eq"], st["found"]))
                    break
            else:
                if a["distinct"] != len(held):
                    v.bad("derivation-history", "set-size", "CgroupPath(%r,%r) ops %s: unordered_set holds %d keys, %d distinct paths were inserted" % (
                        q["fs"], q["p"], q["ops"], a["distinct"], len(held)))
        elif q["q"] == "match":
            if a["m"] != P.hook_match(q["path"], q["pattern"]):
                v.bad("hook-pattern-match", "long", "path %r pattern %r: hasDescendantWithPrefixMatching=%s, reference %s" % (q["path"], q["pattern"], a["m"], not a["m"]))
        else:
            same = P.canon(q["a"]) == P.canon(q["b"])
            if "fs2" in q:
                same = P.canon(q["fs"] + "/" + q["a"]) == P.canon(q["fs2"] + "/" + q["b"])
                v.count("equality_pairs_with_different_root_split")
            if a["eq"] != same or a["ne"] == same or a["abs_eq"] != same or (same and not a["hash_eq"]):
                v.bad("equality-hash", "root-split" if "fs2" in q else "", "paths %r vs %r: ==%s !=%s hash_eq=%s; canonical forms %s" % ((q["fs"], q["a"]) if "fs2" in q else q["a"], (q["fs2"], q["b"]) if "fs2" in q else q["b"], a["eq"], a["ne"], a["hash_eq"], "equal" if same else "differ"))
    v.count("path_queries", n)
    return n


def judge_pairs(v, maxlen):
    import build as vbuild
    bdir = vbuild.build("asan", quiet=True)
    out = "/dev/shm/vpairs.%d" % os.getpid()
    env = dict(os.environ)
    env.update(pure.ENV)
    p = subprocess.run([os.path.join(bdir, "vsim.asan"), "pathpairs", ALPHA, str(maxlen), out], env=env, stderr=subprocess.PIPE, text=True)
    if p.returncode != 0:
        r = core.Result({}, [], {"exit": p.returncode, "signal": 0}, p.stderr)
        ck = core.classify_crash(r) or ("crash", str(p.returncode), p.stderr[-2000:])
        v.bad("crash:" + ck[0], ck[1], ck[2])
        return 0
    strs = strings(maxlen)
    comps = [P.split(s) for s in strs]
    n = npos = 0
    with open(out) as f:
        for i, row in enumerate(f):
            row = row.rstrip("\n")
            a = comps[i]
            for j, ch in enumerate(row):
                b = comps[j]
                k = min(len(a), len(b))
                want = all(b[x] == "*" or a[x] == b[x] for x in range(k))
                n += 1
                npos += want
                if (ch == "1") != want:
                    v.bad("hook-pattern-match", "", "path %r pattern %r: hasDescendantWithPrefixMatching=%s, reference %s" % (strs[i], strs[j], ch == "1", want))
                    if len(v.violations) > 5:
                        os.unlink(out)
                        return n
    os.unlink(out)
    v.count("pattern_pairs", n)
    v.count("pattern_pairs_true", npos)
    return n


NAMES = ["a", "ab", "abc", "b", "ba", "a.b", ".h", "x1", "x10", "cg", "cg2", "A"]


def judge_resolve(v, ntrees, seed):
    rng = random.Random(seed * 31 + 16)
    base = "/dev/shm/vres.%d" % os.getpid()
    shutil.rmtree(base, ignore_errors=True)
    qs, meta = [], []
    for t in range(ntrees):
        # (one tree in seven has a cgroup-fs root whose own name contains glob metacharacters, next to directories that name matches)
        rootname = rng.choice(["cg"] * 6 + ["cg*", "c?", "cg[2]"][t % 3:t % 3 + 1])
        root = "%s/t%d/%s" % (base, t, rootname)
        dirs, files = {""}, set()
        os.makedirs(root)
        os.makedirs(root + "2/a")  # sibling sharing the fs root's name as prefix
        for sib in ("cg", "cgz", "cg2", "cg*z"):
            if sib == rootname:
                continue
            for nm in ("a", "ab", "b/a", "x1"):
                os.makedirs("%s/t%d/%s/%s" % (base, t, sib, nm), exist_ok=True)
        def grow(rel, depth):
            for nm in rng.sample(NAMES, rng.randint(0, 4)):
                c = (rel + "/" + nm) if rel else nm
                if rng.random() < 0.25:
                    open(os.path.join(root, c), "w").close()
                    files.add(c)
                else:
                    os.makedirs(os.path.join(root, c))
                    dirs.add(c)
                    if depth < 3:
                        grow(c, depth + 1)
        grow("", 1)
        for _ in range(6):
            ncomp = rng.randint(1, 3)
            comps = []
            for _ in range(ncomp):
                r = rng.random()
                comps.append(rng.choice(NAMES) if r < 0.35 else rng.choice(["*", "a*", "?", "a?", "*b*", "x1*", "[ab]*", "??", "*.*", "cg*", ".*"]))
            pat = "/".join(comps)
            if rng.random() < 0.12:
                # alternatives; overlapping ones must still yield every directory once
                pat = rng.choice(["{a,ab}", "{a,a*}", "a{,b}", "{x1,cg}*", "{a,b}/{a,*}", "{*,a}", "x1{,0}"]) + ("/" + comps[-1] if len(comps) > 1 and rng.random() < 0.5 else "")
            if rng.random() < 0.15:
                pat = "/" + pat + "//"
            if rng.random() < 0.05:
                pat = ""
            # the same root under other spellings: trailing slashes, and the file-system root with the prefix moved into the pattern
            sp = rng.random()
            fs, qpat = root, pat
            if sp < 0.15:
                fs = root + "/"
            elif sp < 0.25:
                fs = root + "//"
            elif sp < 0.35 and pat and rootname == "cg":
                # (with the prefix moved into the pattern a root name like cg[2] would itself be a pattern component)
                fs, qpat = "/", root.strip("/") + "/" + pat
            qs.append({"q": "resolve", "fs": fs, "pattern": qpat})
            meta.append((root, dirs, pat))
    res = pure.run_queries(qs)
    n = 0
    for q, (root, dirs, pat), (a, crash) in zip(qs, meta, res):
        if crash or a is None:
            ck = pure.crash_key(crash) if crash else ("no-answer", "", "")
            v.bad("crash:" + ck[0], ck[1], "query %s\n%s" % (q, ck[2]))
            continue
        if any(c.startswith(".") and (c in (".", "..") or P.has_wild(c)) for c in P.split(pat)):
            v.count("resolve_dontcare_dot_components")
            continue
        want = [root + ("/" + d if d else "") for d in P.resolve(pat, dirs)]
        n += 1
        if want:
            v.count("resolve_nonempty")
        got = sorted(re.sub("/+", "/", x) for x in a["r"])  # spelling of the root (doubled slashes) is not judged here
        if q["fs"] != root:
            v.count("resolve_other_root_spelling")
        if set(root.rsplit("/", 1)[1]) & set("*?["):
            v.count("resolve_root_name_with_glob_characters")
        if "{" in pat:
            v.count("resolve_brace_patterns")
        if got != sorted(want):
            kind = []
            if "{" in pat:
                kind.append("alternatives-resolved-twice" if sorted(set(got)) == sorted(want) else "alternatives")
            if q["fs"] != root:
                kind.append("root-spelling")
            v.bad("resolve-wildcard", "+".join(kind), "fs %r pattern %r: resolved %s; matching directories %s (all dirs %s)" % (
                q["fs"], q["pattern"], a["r"], sorted(x[len(root):] for x in want), sorted(dirs)))
    shutil.rmtree(base, ignore_errors=True)
    v.count("resolve_queries", n)
    return n


def judge_lists(v, n, seed):
    rng = random.Random(seed * 31 + 161)
    qs = []
    for _ in range(n):
        items = ["".join(rng.choice("ab/*,") for _ in range(rng.randint(0, 6))) for _ in range(rng.randint(0, 4))]
        qs.append({"q": "parseCgroup", "fs": "/x/cg", "s": ",".join(items)})
    res = pure.run_queries(qs)
    k = 0
    for q, (a, crash) in zip(qs, res):
        if crash or a is None:
            ck = pure.crash_key(crash) if crash else ("no-answer", "", "")
            v.bad("crash:" + ck[0], ck[1], "query %s\n%s" % (q, ck[2]))
            continue
        want = sorted(set(expect_abs("/x/cg", it)[0] for it in q["s"].split(",") if it))
        k += 1
        if sorted(a["r"]) != want:
            v.bad("cgroup-list", "", "parseCgroup(%r) = %s, expected %s" % (q["s"], sorted(a["r"]), want))
    v.count("list_queries", k)
    return k


def judge(case, results):
    v = core.Verdict()
    m = case.meta
    if m["part"] == "paths":
        n = judge_paths(v, m["maxlen"], m.get("seed", 1))
    elif m["part"] == "pairs":
        n = judge_pairs(v, m["maxlen"])
    elif m["part"] == "resolve":
        n = judge_resolve(v, m["trees"], m["seed"])
    else:
        n = judge_lists(v, m["n"], m["seed"])
    v.nontrivial = n > 0
    v.sig = m["part"]
    return v


def coverage_extra(cases_, verdicts, tier):
    tot = sum(v.stats.get(k, 0) for v in verdicts for k in ("path_queries", "pattern_pairs", "resolve_queries", "list_queries"))
    return {"evaluations": tot, "distinct_nontrivial": sum(v.stats.get("pattern_pairs_true", 0) + v.stats.get("resolve_nonempty", 0) + v.stats.get("path_queries", 0) for v in verdicts),
            "exhaustive": True, "exhaustive_note": "parts (1) and (2) enumerate every string / pair up to the stated length; (3),(4) are random"}


def sample(case, v):
    return {"part": case.meta, "observed": v.stats}
