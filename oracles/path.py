"""Reference for cgroup path algebra / wildcard resolution (written from docs, not the C++)."""
import fnmatch


def split(path):
    return [c for c in path.split("/") if c]


def canon(path):
    return "/".join(split(path))


def comp_match(pat, name):
    # shell glob on one component; wildcards never match a leading '.'
    if name.startswith(".") and not pat.startswith("."):
        return False
    return fnmatch.fnmatchcase(name, pat)


def has_wild(c):
    return any(ch in c for ch in "*?[")


def resolve(pattern, dirs):
    """dirs: set of existing cgroup rel paths ('' is the root). -> sorted list of matches."""
    pc = split(pattern)
    out = set()
    for d in dirs:
        dc = split(d)
        if len(dc) != len(pc):
            continue
        if all(comp_match(p, c) for p, c in zip(pc, dc)):
            out.add(canon(d))
    return sorted(out)


def resolve_many(patterns, dirs):
    out = set()
    for p in patterns:
        out.update(resolve(p, dirs))
    return sorted(out)


def hook_match(path, pattern):
    """prekill-hook pattern relation: equal, ancestor of a possible match, or descendant of a match;
    '*' stands for exactly one whole component."""
    a, b = split(path), split(pattern)
    n = min(len(a), len(b))
    return all(b[i] == "*" or a[i] == b[i] for i in range(n))


def is_desc_or_self(path, anc):
    a, b = split(path), split(anc)
    return len(a) >= len(b) and a[:len(b)] == b
