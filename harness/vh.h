// Shared declarations of the verification harness (not part of oomd).
#pragma once
#include <json/json.h>
#include <atomic>
#include <cstdint>
#include <functional>
#include <map>
#include <mutex>
#include <set>
#include <string>
#include <vector>

namespace vh {

// ---- bypass: harness-internal libc calls must not be seen as oomd events ----
extern thread_local int t_bypass;
struct Bypass {
  Bypass() { ++t_bypass; }
  ~Bypass() { --t_bypass; }
};

struct FileFault {
  std::string path; // absolute path of the file (or dir) in the simulated world
  std::string mode; // absent | empty | eacces
  int from_tick{0};
  int to_tick{1 << 30};
};

struct AccessFault {
  int tick{0};
  int k{0}; // file-access index within the tick
  Json::Value ops;
  bool done{false};
};

struct Sim {
  bool armed{false}; // events + faults active
  bool vclock{false}; // virtual CLOCK_MONOTONIC
  int64_t now_ns{100000LL * 1000000000LL};
  int tick{-1};
  int nticks{0};
  int sigwait_calls{0};
  int access_k{0}; // file-access index within tick
  std::string root, cgroot, procroot;
  Json::Value scn;
  // kill emulation
  std::map<long, std::string> pid_cg; // pid -> cgroup rel path
  std::map<long, std::string> kill_result; // pid -> ok|ESRCH|EPERM
  std::string kill_default{"ok"};
  std::map<long, int> linger; // pid -> remaining reads it stays listed after kill
  std::map<std::string, std::set<long>> pending_dead; // cg rel -> pids to drop
  std::set<std::string> procs_dirty; // cgroups whose procs changed by kills
  // xattr emulation, keyed by inode
  std::map<uint64_t, std::map<std::string, std::string>> xattrs;
  std::string xattr_fail; // "" | ENOTSUP | EPERM (for trusted.*)
  bool dtype_unknown{false};
  std::vector<FileFault> file_faults;
  std::vector<AccessFault> access_faults;
  bool record_opens{false};
  // write(2) faults on control files: file basename -> {errno, remaining count (-1 = always), short write}
  struct WriteFault {
    std::string file;
    int err{0};
    int remaining{-1};
    bool shortw{false};
    bool block{false}; // the write takes effect, then blocks until a signal interrupts it (memory.high reclaim loop), returns n
  };
  std::vector<WriteFault> write_faults;
  bool vanish_after_kill{false}; // a cgroup is removed (its manager's rmdir) as soon as cgroup.kill was written / its last pid signalled
  int xattr_get_errno{0}; // errno for fgetxattr/getxattr under the scratch root (0 = emulate normally)
  // event log
  std::mutex mu;
  uint64_t seq{0};
  std::string buf;
  int trace_fd{-1};
  std::string trace_path;
  std::string last_throw; // Oomd:: frames of the most recent __cxa_throw
};
extern Sim g;
// called at every tick boundary by the interposed sigtimedwait, after the world ops and the tick event (the place where
// Oomd::run() calls updateDropIns()); set by the sim driver
extern void (*g_tick_hook)(int tick, const Json::Value& tk);
extern std::atomic<unsigned> g_yield_ppm; // probability (ppm) of a seeded yield at mutex lock/unlock, TSan flavor

void ev(Json::Value& e); // adds seq/tick/t and appends to the trace
void flush_trace();
std::string jstr(const Json::Value& v);

// world helpers (all bypass the interposers)
bool write_file(const std::string& path, const std::string& text);
std::string read_file(const std::string& path, bool* ok = nullptr);
void mkdirs(const std::string& path);
void rmtree(const std::string& path);
uint64_t inode_of(const std::string& path);
std::string fd_path(int fd);
void apply_ops(const Json::Value& ops);
void materialize_cgroup(const std::string& rel, const Json::Value& spec);
std::string cg_abs(const std::string& rel);
std::string cg_rel(const std::string& abs); // "" if not under cgroot, "/" marker for root -> returns "."

// drivers register themselves (vsim <mode> args...)
using DrvFn = int (*)(int, char**);
void register_driver(const char* name, DrvFn fn);
#define VH_DRIVER(name, fn) static bool drv_reg_##name = (vh::register_driver(#name, fn), true)
void setup_world(const Json::Value& scn, const std::string& tag);

// plugin scripts
std::string script_next(const std::string& id, const std::string& cg, uint64_t call_idx);

} // namespace vh
