"""C15 Cgroup statistics equal the reference function of kernel files and tick history."""
import math
import random
from fractions import Fraction as F

from vlib import core, world as W, model, killgen as KG
from oracles import cgroup as CG, engine, path as P

ID = "C15"
LEVEL = "exploration"
FLAVORS = ["asan"]
RULE = ("random trees (depth<=3) whose control files are generated in the kernel's grammar: integers over the full non-negative int64 "
        "range, `max`, both PSI formats (upstream and legacy `aggr`), memory.stat / cgroup.stat with shuffled key order and extra keys, "
        "io.stat with several devices and trailing extra keys, prefer/avoid xattrs on both namespaces, configured io devices and "
        "coefficients, /proc/swaps with 0-2 areas, root cgroup via /proc/meminfo and /proc/pressure (or legacy /proc/mempressure); 4-6 tick "
        "histories that rewrite files, remove and re-create cgroups, make a statistic's file unusable for a single tick (sample gap), with and without d_type; a scripted probe plugin queries every "
        "public accessor of every matched CgroupContext twice per tick (files are rewritten between the two reads) and SystemContext; "
        "each value is compared with the reference computed from the same texts (exact for integers, float32 for PSI, 1e-9 relative for "
        "double-based derived values), plus within-tick stability, re-read on the next tick and identity/fresh history after re-creation. "
        "non-trivial = >=200 accessor values compared incl. >=1 derived hierarchical value; distinct by scenario hash")
ASSUMPTIONS = ["reference functions in oracles/cgroup.py (written from kernel grammar and docs)",
               "the probe queries every tick, which is the documented precondition for temporal values",
               "a cgroup with memory.swap.max=0 (or below one) has undefined utilisation: don't-care"]


def big(rng):
    r = rng.random()
    if r < 0.5:
        return rng.randint(0, 1 << 34)
    if r < 0.7:
        return rng.choice([0, 1, 4095, 4096, (1 << 31) - 1, 1 << 31, (1 << 32) + 1])
    return rng.randint(0, 1 << 61)


def limtxt(rng):
    return "max\n" if rng.random() < 0.4 else "%d\n" % big(rng)


def psitxt(rng, legacy=False):
    t = lambda: (round(rng.uniform(0, 100), 2), round(rng.uniform(0, 100), 2), round(rng.uniform(0, 100), 2))
    if legacy:
        return W.psi_legacy(t(), t(), rng.randint(0, 1 << 40))
    return W.psi(t() + (rng.randint(0, 1 << 50),), t() + (rng.randint(0, 1 << 50),))


def stattxt(rng):
    keys = list(W.MEMSTAT_KEYS) + ["workingset_refault", "thp_fault_alloc"]
    if rng.random() < 0.12:
        # a newer kernel with many more counters: the file spans several 4 KiB pages / stdio buffers
        keys += ["%s_%d" % (rng.choice(["workingset", "thp", "numa_pages", "zswpin", "pgdemote_kswapd_extra"]), j) for j in range(rng.randint(120, 500))]
    rng.shuffle(keys)
    return "".join("%s %d\n" % (k, big(rng)) for k in keys)


def big_iostat(rng):
    """io.stat of a host with dozens of block devices (> 4 KiB), the configured ones somewhere in between"""
    devs = ["259:%d" % j for j in range(rng.randint(40, 120))] + ["8:0", "8:16", "253:0"]
    rng.shuffle(devs)
    out = []
    for d in devs:
        v = [rng.randint(0, 10**12) for _ in range(6)]
        out.append("%s rbytes=%d wbytes=%d rios=%d wios=%d dbytes=%d dios=%d\n" % (d, v[0], v[1], v[2], v[3], v[4], v[5]))
    return "".join(out)


def node(rng, pids):
    f = {
        "cgroup.controllers": "cpu io memory pids\n",
        "cgroup.procs": "".join("%d\n" % p for p in pids),
        "cgroup.events": rng.choice(["populated %d\nfrozen 0\n", "frozen 0\npopulated %d\n"]) % rng.choice([0, 1]),
        "cgroup.stat": rng.choice(["nr_descendants 3\nnr_dying_descendants %d\n", "nr_dying_descendants %d\nnr_descendants 1\n"]) % rng.choice([0, 1, 77, 10**6]),
        "memory.current": "%d\n" % big(rng),
        "memory.pressure": psitxt(rng, rng.random() < 0.15),
        "io.pressure": psitxt(rng, rng.random() < 0.15),
        "memory.stat": stattxt(rng),
        "memory.low": limtxt(rng), "memory.min": limtxt(rng), "memory.high": limtxt(rng), "memory.max": limtxt(rng),
        "memory.swap.current": "%d\n" % big(rng), "memory.swap.max": limtxt(rng) if rng.random() < 0.8 else "0\n",
        "memory.oom.group": rng.choice(["0\n", "1\n"]),
        "io.stat": KG.iostat_text(rng, rng.choice([1, 1000])) if rng.random() < 0.9 else big_iostat(rng),
        "pids.current": "%d\n" % len(pids),
    }
    if rng.random() < 0.4:
        f["memory.high.tmp"] = rng.choice(["max 0\n", "%d 20000000\n" % big(rng)])
    spec = {"files": f}
    if rng.random() < 0.4:
        spec["xattrs"] = {rng.choice(["trusted.oomd_prefer", "user.oomd_prefer", "trusted.oomd_avoid", "user.oomd_avoid"]): "1"}
        if rng.random() < 0.3:
            spec["xattrs"][rng.choice(["user.oomd_prefer", "trusted.oomd_avoid"])] = "1"
    return spec


def cases(seed, tier):
    yield from _cases_main(seed, tier)
    yield from consistency_cases(seed, 200 if tier == "quick" else 2000)


def _cases_main(seed, tier):
    n = 600 if tier == "quick" else 6000
    rng = random.Random(seed * 1000003 + 15)
    for i in range(n):
        cid = "C15-%d-%d" % (seed, i)
        rels = []
        for a in rng.sample(KG.NAMES, rng.randint(2, 4)):
            rels.append("wl/" + a)
            for b in rng.sample(KG.NAMES, rng.choice([0, 0, 2, 3])):
                rels.append("wl/%s/%s" % (a, b))
                if rng.random() < 0.2:
                    rels.append("wl/%s/%s/leaf" % (a, b))
        pid = [100]

        def mk(rel):
            pid[0] += 2
            return node(rng, [pid[0], pid[0] + 1] if rng.random() < 0.5 else [])

        cgs = {"/": W.root_cgroup(), "wl": mk("wl")}
        for r in rels:
            cgs[r] = mk(r)
        swap_entries = rng.choice([(), ((1 << 21, 1 << 19),), ((1 << 22, 12345), (1 << 20, 1 << 20))])
        proc = W.proc(mem_total_kb=rng.choice([1 << 23, 1 << 25]), swap_entries=swap_entries, swappiness=rng.choice([0, 60, 100]),
                      vm={"pswpout": rng.randint(0, 10**6)}, mem_psi=psitxt(rng), io_psi=psitxt(rng))
        if rng.random() < 0.15:
            proc["mempressure"] = psitxt(rng, True)
            proc["pressure/memory"] = None
        nticks = rng.randint(4, 6)
        ticks, probe_ops = [], {}
        live = set(rels)
        pswp = CG.parse_kv(proc["vmstat"])["pswpout"]
        gap_restore = []  # files made unavailable for exactly one tick, restored on the next
        for t in range(nticks):
            ops = list(gap_restore)
            gap_restore = []
            gapped = set()
            if t > 0:
                for r in rels:
                    top_alive = all(p in live for p in [r.rsplit("/", k)[0] for k in range(1, r.count("/"))])
                    x = rng.random()
                    if r in live and x < 0.08:
                        ops.append({"op": "rm", "cg": r})
                        for q in list(live):
                            if q == r or q.startswith(r + "/"):
                                live.discard(q)
                        if rng.random() < 0.5:
                            ops.append(dict(op="mk", cg=r, **mk(r)))
                            live.add(r)
                    elif r not in live and x < 0.4 and top_alive:
                        ops.append(dict(op="mk", cg=r, **mk(r)))
                        live.add(r)
                    elif r in live and x < 0.16 and t < nticks - 1:
                        # sample gap: the statistic's file is unusable for one tick (history must restart, not resume)
                        fn = rng.choice(["memory.current", "io.stat", "memory.stat"])
                        nd = node(rng, [])
                        if fn == "memory.stat":
                            gone = "".join(l + "\n" for l in nd["files"][fn].split("\n") if l and not l.startswith("pgscan "))
                        else:
                            gone = None
                        gapped.add(r)
                        ops.append({"op": "write", "cg": r, "file": fn, "text": gone})
                        gap_restore.append({"op": "write", "cg": r, "file": fn, "text": nd["files"][fn]})
                    elif r in live and x < 0.7:
                        nd = node(rng, [])
                        for fn in rng.sample(["memory.current", "memory.stat", "io.stat", "memory.pressure", "memory.swap.current", "memory.low", "cgroup.events"], 3):
                            ops.append({"op": "write", "cg": r, "file": fn, "text": nd["files"][fn]})
                pswp += rng.choice([0, 0, 10, 100000])
                ops.append({"op": "write", "proc": "vmstat", "text": W.vmstat({"pswpout": pswp})})
            ticks.append({"step_ns": 10**9, "ops": ops})
            # the mid-tick rewrite must not repair a sample gap of the same tick (the second read would then be
            # the first successful sample and the history model would have to follow the probe, not the files)
            cand = sorted(x for x in live if not any(x == g_ or x.startswith(g_ + "/") or g_.startswith(x + "/") for g_ in gapped))
            if cand and rng.random() < 0.7:
                r = rng.choice(cand)
                nd = node(rng, [])
                probe_ops[str(t)] = [{"op": "write", "cg": r, "file": fn, "text": nd["files"][fn]} for fn in ("memory.current", "memory.stat", "memory.pressure", "memory.swap.max")]
        pats = "wl,wl/*,wl/*/*,wl/*/*/*" + (",/" if rng.random() < 0.5 else "")
        cfg = {"rulesets": [{"name": "r", "post_action_delay": "0",
                             "detectors": [["g", {"name": "v_probe", "args": {"id": "p", "cgroup": pats, "twice": "1"}}]], "actions": [W.act("a")]}]}
        devs = rng.choice([{}, {"8:0": "ssd"}, {"8:0": "ssd", "8:16": "hdd"}, {"253:0": "hdd"}])
        scn = KG.base_scn(cid, cgs, cfg, ticks=ticks, proc=proc, probe_ops=probe_ops, io_devs=devs,
                          hdd_coeffs=rng.choice([KG.HDD, [1, 2, 3, 4, 5, 6], [0.5, 0, 0, 0, 0, 0]]), ssd_coeffs=rng.choice([KG.SSD, [1e-3, 1e-9, 2, 0, 0, 7]]),
                          interval=rng.choice([1, 5]), dtype_unknown=rng.random() < 0.25)
        yield core.Case(cid, [scn], {"patterns": pats, "devs": devs, "dtype_unknown": scn["dtype_unknown"]})


def feq(a, b, ulps=1):
    if a is None or b is None:
        return a is b
    if a == b:
        return True
    return abs(a - b) <= ulps * abs(CG.f32(b)) * 2.0 ** -23


def cmp_press(got, want):
    if got is None or want is None:
        return got is None and want is None
    return all(feq(g, w) for g, w in zip(got[:3], want[:3])) and got[3] == want[3]


def consistency_cases(seed, n):
    """a control file of a cgroup changes between two queries of one tick (after the k-th cgroup of the probe's pass): whatever
    moment each value was obtained at, the values reported for one tick must fit together - a cgroup's distributed memory
    protection is the documented function of the claims reported for its siblings and of its parent's protection"""
    rng = random.Random(seed * 1000003 + 151)
    for i in range(n):
        names = rng.sample(["a", "b", "c", "d", "e"], rng.randint(2, 4))
        scale = rng.choice([1 << 12, 1 << 20, 1 << 30])
        cgs = {"/": W.root_cgroup(), "wl": W.cgroup(current=40 * scale, low=rng.choice([0, 3 * scale, 10 * scale, None]))}
        for nm in names:
            cgs["wl/" + nm] = W.cgroup(current=rng.randint(1, 9) * scale, low=rng.choice([0, 2 * scale, 6 * scale]), minv=rng.choice([0, 0, scale]))
        nticks = 4
        mid = {}
        for t in range(nticks):
            tgt = "wl/" + rng.choice(names)
            fn = rng.choice(["memory.current", "memory.low", "memory.min"])
            mid[str(t)] = {"after": rng.randint(1, 2),
                           "ops": [{"op": "write", "cg": tgt, "file": fn, "text": "%d\n" % (rng.randint(1, 20) * scale)}]}
        # a first probe looks at one child only (its siblings are not in oomd's cache yet when its protection is worked out), the
        # file changes, then a second probe looks at all of them
        first = "wl/" + rng.choice(names)
        cfg = {"rulesets": [{"name": "rp", "post_action_delay": "0",
                             "detectors": [["g", {"name": "v_probe", "args": {"id": "p1", "cgroup": rng.choice([first, "wl," + first])}},
                                            {"name": "v_probe", "args": {"id": "p", "cgroup": "wl,wl/*"}}]], "actions": [W.act("pa")]}]}
        cid = "C15c-%d-%d" % (seed, i)
        scn = KG.base_scn(cid, cgs, cfg, ticks=[{"step_ns": 10**9} for _ in range(nticks)])
        scn["probe_mid_ops"] = mid
        yield core.Case(cid, [scn], {"consistency": True, "names": names})


def judge_consistency(case, results):
    v = core.Verdict()
    res = results[0]
    cr = core.classify_crash(res) if res.crashed else core.exception_outcome(res)
    if cr:
        v.bad("crash:" + cr[0], cr[1], cr[2])
        return v
    n = 0
    for e in res.events:
        if e.get("ev") != "probe" or e.get("pass") != 0 or e.get("id") != "p":
            continue
        cgs = e["cgs"]
        par = cgs.get("wl")
        kids = {k: c for k, c in cgs.items() if k.startswith("wl/")}
        if not par or par.get("memory_protection") is None or any(c.get(f) is None for c in kids.values() for f in ("current_usage", "memory_low", "memory_min", "memory_protection")):
            continue
        claim = {k: min(c["current_usage"], max(c["memory_min"], c["memory_low"])) for k, c in kids.items()}
        tot = sum(claim.values())
        for k, c in kids.items():
            want = 0 if tot == 0 else claim[k] * min(1.0, par["memory_protection"] / tot)
            n += 1
            if abs(c["memory_protection"] - want) > 2 + abs(want) * 1e-9:
                v.bad("values-of-one-tick-disagree", "memory_protection",
                      "tick %s (a control file changed after %s was probed): %s reports memory_protection=%d, but the claims reported for its siblings in the same tick %s under a parent with protection %d give %.1f" % (
                          e.get("tick"), e.get("mid_ops_after"), k, c["memory_protection"], claim, par["memory_protection"], want))
                break
    v.count("consistency_cases")
    v.count("protection_values_cross_checked", n)
    v.nontrivial = n > 0
    v.sig = core.scn_hash(case.scns[0])
    return v


def judge(case, results):
    if case.meta.get("consistency"):
        return judge_consistency(case, results)
    v = core.Verdict()
    res, scn = results[0], case.scns[0]
    cr = core.classify_crash(res) if res.crashed else core.exception_outcome(res)
    if cr:
        v.bad("crash:" + cr[0], cr[1], cr[2])
        return v
    params = CG.Params(scn)
    hist = CG.History(params)
    ws = []
    w_ = model.World(scn)
    for ti_, t_ in enumerate(scn["ticks"]):
        w_.apply(t_.get("ops"))
        ws.append(w_.snapshot())
        w_.apply(scn.get("probe_ops", {}).get(str(ti_)))  # mid-tick rewrites persist into the next tick
    pats = case.meta["patterns"].split(",")
    _, ticks = engine.split_ticks(res.events)
    if len(ticks) != len(ws):
        v.bad("ticks-missing", "", "trace has %d ticks" % len(ticks))
        return v
    ncmp = 0
    ids = {}  # (rel, gen) -> id
    prev_sys = None
    f60 = math.exp(-params.interval / 60.0)
    f300 = math.exp(-params.interval / 300.0)
    ew60 = ew300 = 0.0
    prev_pswp = None

    def bad(rule, field, msg):
        v.bad(rule, field, msg)

    for ti, evs in enumerate(ticks):
        view = CG.View(ws[ti], params)
        probes = [e for e in evs if e.get("ev") == "probe"]
        if len(probes) != 2:
            bad("probe-missing", "", "tick %d: %d probe events" % (ti, len(probes)))
            return v
        p0, p1 = probes
        want_rels = P.resolve_many(pats, view.w.dirs())
        got_rels = sorted(("" if k == "/" else k) for k in p0["cgs"])
        if got_rels != sorted(want_rels):
            bad("resolved-set", "", "tick %d: contexts for %s, matching directories %s" % (ti, got_rels, sorted(want_rels)))
            return v
        temporal = hist.step(view, want_rels, ti)
        # system context
        s = p0["sys"]
        if (s["swaptotal"], s["swapused"]) != (view.swaptotal, view.swapused):
            bad("value", "system.swap", "tick %d: swaptotal/used %s/%s, /proc/swaps says %s/%s" % (ti, s["swaptotal"], s["swapused"], view.swaptotal, view.swapused))
        if s["swappiness"] != int(view.w.proc["sys/vm/swappiness"]):
            bad("value", "system.swappiness", "tick %d: %s" % (ti, s["swappiness"]))
        pswp = CG.parse_kv(view.w.proc["vmstat"])["pswpout"]
        if prev_pswp is not None:
            bps = (pswp - prev_pswp) * 4096.0 / params.interval
            ew60 = bps + f60 * (ew60 - bps)
            ew300 = bps + f300 * (ew300 - bps)
            for nm, w in (("swapout_bps", bps), ("swapout_bps_60", ew60), ("swapout_bps_300", ew300)):
                if not CG.close(s[nm], w, 1e-9, 1e-6):
                    bad("value", "system." + nm, "tick %d: %s=%r, reference %r" % (ti, nm, s[nm], w))
        prev_pswp = pswp
        for rel in want_rels:
            key = "/" if rel == "" else rel
            g0, g1 = p0["cgs"][key], p1["cgs"].get(key)
            # "once obtained, a value does not change within the tick": a statistic that was unavailable on the
            # first read has not been obtained and may legitimately become available on a later query
            changed = [k for k in g0 if g0[k] is not None and (g1 is None or g0[k] != g1.get(k))]
            if changed:
                diff = changed
                bad("within-tick-stability", ",".join(diff[:3]), "tick %d cgroup %s: second read differs in %s after files were rewritten mid-tick" % (ti, rel, diff))
                continue
            exc = [k for k, val in g0.items() if isinstance(val, str) and val.startswith("EXC:")]
            if exc:
                bad("accessor-threw", exc[0], "tick %d cgroup %s: %s -> %s" % (ti, rel, exc[0], g0[exc[0]]))
                continue
            gen = view.ident(rel)
            if g0["id"] is None:
                bad("value", "id", "tick %d cgroup %s: no id" % (ti, rel))
            else:
                old = ids.get((rel, gen))
                if old is not None and old != g0["id"]:
                    bad("identity", "changed", "tick %d cgroup %s: id changed %s -> %s for the same directory" % (ti, rel, old, g0["id"]))
                for (r2, g2), i2 in ids.items():
                    if (r2, g2) != (rel, gen) and i2 == g0["id"]:
                        bad("identity", "shared", "tick %d: cgroup %s (incarnation %d) has the id of %s (incarnation %d)" % (ti, rel, gen, r2, g2))
                ids[(rel, gen)] = g0["id"]
            W_ = {}
            W_["children"] = sorted(view.children(rel))
            got_children = None if g0["children"] is None else sorted(g0["children"])
            if got_children != W_["children"]:
                bad("value", "children", "tick %d cgroup %s (d_type %s): children %s, directories %s" % (ti, rel, "unknown" if scn.get("dtype_unknown") else "set", got_children, W_["children"]))
            ncmp += 1
            for fld, res_, kind in (("mem_pressure", "memory", "full"), ("mem_pressure_some", "memory", "some"), ("io_pressure", "io", "full"), ("io_pressure_some", "io", "some")):
                want = view.psi(rel, res_, kind)
                if rel == "" and res_ == "memory" and view.w.proc.get("pressure/memory") is None:
                    want = CG.parse_psi(view.w.proc.get("mempressure"), kind)
                ncmp += 1
                if not cmp_press(g0[fld], want):
                    bad("value", fld, "tick %d cgroup %s: %s=%s, file says %s" % (ti, rel, fld, g0[fld], want))
            simple = {
                "current_usage": view.current(rel),
                "nr_dying_descendants": view.nr_dying(rel) if rel else view.nr_dying(""),
            }
            if rel != "":
                simple.update({
                    "swap_usage": view.swap_usage(rel), "swap_max": view.swap_max(rel),
                    "memory_low": view.limit(rel, "memory.low"), "memory_min": view.limit(rel, "memory.min"),
                    "memory_high": view.limit(rel, "memory.high"), "memory_max": view.limit(rel, "memory.max"),
                    "memory_high_tmp": CG.parse_high_tmp(view.f(rel, "memory.high.tmp")),
                    "is_populated": view.populated(rel), "oom_group": view.oom_group(rel), "kill_preference": view.pref(rel),
                    "memory_stat": view.memstat(rel), "io_stat": CG.parse_iostat(view.f(rel, "io.stat")),
                    "effective_swap_max": view.eff_swap_max(rel), "effective_swap_free": view.eff_swap_free(rel),
                    "pg_scan_cumulative": view.pgscan(rel),
                })
                ms = view.memstat(rel) or {}
                simple.update({"anon_usage": ms.get("anon"), "file_usage": ms.get("file"), "shmem_usage": ms.get("shmem")})
            for fld, want in simple.items():
                ncmp += 1
                if g0[fld] != want:
                    bad("value", fld, "tick %d cgroup %s: %s=%r, reference %r" % (ti, rel, fld, g0[fld], want))
            if rel != "":
                u = view.eff_swap_util(rel)
                if u != "dontcare":
                    ncmp += 1
                    if not CG.close(g0["effective_swap_util_pct"], u, 1e-9, 1e-12):
                        bad("value", "effective_swap_util_pct", "tick %d cgroup %s: %r, reference %r" % (ti, rel, g0["effective_swap_util_pct"], None if u is None else float(u)))
                pr = view.protection(rel)
                ncmp += 1
                if not CG.close(g0["memory_protection"], pr, 1e-9, 2):
                    bad("value", "memory_protection", "tick %d cgroup %s: %r, reference %r" % (ti, rel, g0["memory_protection"], None if pr is None else float(pr)))
                eu = view.effective_usage(rel)
                if not CG.close(g0["effective_usage"], eu, 1e-9, 2 + 1e-12 * (view.current(rel) or 0)):
                    bad("value", "effective_usage", "tick %d cgroup %s: %r, reference %r" % (ti, rel, g0["effective_usage"], None if eu is None else float(eu)))
                io = view.io_cost_cum(rel)
                ncmp += 1
                if not CG.close(g0["io_cost_cumulative"], io, 1e-9, 1e-9):
                    bad("value", "io_cost_cumulative", "tick %d cgroup %s: %r, reference %r" % (ti, rel, g0["io_cost_cumulative"], None if io is None else float(io)))
                tv = temporal.get(rel, {})
                for fld, tol in (("average_usage", 2 + ti), ("io_cost_rate", 1e-6), ("pg_scan_rate", 0)):
                    want = tv.get(fld)
                    ncmp += 1
                    if not CG.close(g0[fld], want, 1e-9, tol):
                        bad("temporal", fld, "tick %d cgroup %s: %s=%r, recurrence over the history gives %r" % (ti, rel, fld, g0[fld], None if want is None else float(want)))
                au = tv.get("average_usage")
                cur = view.current(rel)
                if au is not None and cur is not None:
                    wantg = 0.0 if math.floor(au) == 0 else cur / math.floor(au)
                    if g0["memory_growth"] is None or abs(g0["memory_growth"] - wantg) > 1e-6 * max(1, wantg):
                        bad("temporal", "memory_growth", "tick %d cgroup %s: %r, reference %r" % (ti, rel, g0["memory_growth"], wantg))
        if v.violations:
            return v
    v.count("values_compared", ncmp)
    v.count("dtype_unknown_cases", 1 if scn.get("dtype_unknown") else 0)
    v.nontrivial = ncmp >= 200
    v.sig = core.scn_hash(scn)
    return v


def sample(case, v):
    s = case.scns[0]
    if case.meta.get("consistency"):
        return {"case": case.id, "mid_tick_changes": s["probe_mid_ops"], "observed": v.stats}
    k = sorted(s["cgroups"])[-1]
    return {"case": case.id, "meta": case.meta, "cgroups": sorted(s["cgroups"]), "files_of_" + k: s["cgroups"][k]["files"],
            "ops_tick1": s["ticks"][1]["ops"][:3], "observed": v.stats}
