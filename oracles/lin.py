"""Linearizability of small histories against a sequential counter map (Wing & Gong search with memoisation)."""


def apply(state, op):
    """state: tuple of sorted (k,v); returns (new_state, expected_result or None if op has no result)"""
    d = dict(state)
    o = op["op"]
    if o == "inc":
        d[op["k"]] = d.get(op["k"], 0) + op["v"]
        return tuple(sorted(d.items())), None
    if o == "set":
        d[op["k"]] = op["v"]
        return tuple(sorted(d.items())), None
    if o in ("reset", "creset", "raw_r"):
        return tuple(sorted((k, 0) for k in d)), None
    if o in ("get", "cget", "raw_g"):
        return state, dict(d)
    if o == "noop":
        return state, None
    raise ValueError(o)


def check(ops, init, budget=200000):
    """ops: list of dicts with call, ret, op, (k, v), res.  -> (True|False|None, witness)"""
    n = len(ops)
    ops = sorted(ops, key=lambda o: o["call"])
    init_state = tuple(sorted(init.items()))
    seen = set()
    steps = [0]

    def rec(done, state):
        if len(done) == n:
            return True
        key = (done, state)
        if key in seen:
            return False
        seen.add(key)
        steps[0] += 1
        if steps[0] > budget:
            raise TimeoutError
        # minimal ops: not done and no other undone op returned before its call
        undone = [i for i in range(n) if i not in done]
        min_ret = min(ops[i]["ret"] for i in undone)
        for i in undone:
            if ops[i]["call"] > min_ret:
                continue
            ns, exp = apply(state, ops[i])
            if exp is not None and ops[i].get("res") != exp:
                continue
            if rec(done | {i}, ns):
                return True
        return False

    try:
        ok = rec(frozenset(), init_state)
    except TimeoutError:
        return None, "search budget exceeded"
    return ok, None
