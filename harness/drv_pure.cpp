// `vsim q <in.jsonl> <out.jsonl>`: pure-function queries against the real oomd API (C12, C16).
// One process handles a whole batch; every answer is flushed, so after a crash the first
// unanswered query is the culprit.
#include <unordered_set>
#include <cxxabi.h>
#include <string.h>
#include <unistd.h>

#include <fstream>
#include <iostream>
#include <sstream>

#include "oomd/Log.h"
#include "oomd/Stats.h"
#include "oomd/PluginRegistry.h"
#include "oomd/config/ConfigCompiler.h"
#include "oomd/config/JsonConfigParser.h"
#include "oomd/dropin/DropInServiceAdaptor.h"
#include "oomd/engine/Engine.h"
#include "oomd/include/CgroupPath.h"
#include "oomd/include/Types.h"
#include "oomd/util/PluginArgParser.h"
#include "oomd/util/Util.h"
#include "vh.h"

namespace vh {

static std::string demangle(const char* n) {
  int st = 0;
  char* d = abi::__cxa_demangle(n, nullptr, nullptr, &st);
  std::string r = (st == 0 && d) ? d : n;
  free(d);
  return r;
}

static Json::Value path_info(const Oomd::CgroupPath& p) {
  Json::Value o;
  o["abs"] = p.absolutePath();
  o["rel"] = p.relativePath();
  o["root"] = p.isRoot();
  o["hash"] = (Json::UInt64)std::hash<Oomd::CgroupPath>{}(p);
  Json::Value parts(Json::arrayValue);
  for (const auto& s : p.relativePathParts()) {
    parts.append(s);
  }
  o["parts"] = parts;
  return o;
}

template <typename T>
static void value_query(const std::string& s, Json::Value& out, std::function<Json::Value(const T&)> conv) {
  try {
    T v = Oomd::PluginArgParser::parseValue<T>(s);
    out["ok"] = true;
    out["v"] = conv(v);
  } catch (const std::exception& e) {
    out["ok"] = false;
    out["exc"] = demangle(typeid(e).name());
  }
}

class QAdaptor : public Oomd::DropInServiceAdaptor {
 public:
  using Oomd::DropInServiceAdaptor::DropInServiceAdaptor;
  using Oomd::DropInServiceAdaptor::scheduleDropInAdd;
  using Oomd::DropInServiceAdaptor::scheduleDropInRemove;
  std::vector<std::pair<std::string, bool>> results;

 protected:
  void tick() override {}
  void handleDropInAddResult(const std::string& tag, bool ok) override {
    results.emplace_back(tag, ok);
  }
  void handleDropInRemoveResult(const std::string& tag, bool ok) override {
    results.emplace_back("-" + tag, ok);
  }
};

// ids of the scripted plugins that ran, in order, during one prerun+runOnce
static Json::Value tick_ids(Oomd::Engine::Engine& engine, Oomd::OomdContext& ctx) {
  size_t ev0;
  {
    std::lock_guard<std::mutex> l(g.mu);
    ev0 = g.buf.size();
  }
  engine.prerun(ctx);
  engine.runOnce(ctx);
  std::lock_guard<std::mutex> l(g.mu);
  std::string evs = g.buf.substr(ev0);
  g.buf.erase(ev0);
  Json::Value arr(Json::arrayValue);
  std::istringstream is(evs);
  std::string line;
  Json::CharReaderBuilder rb;
  while (std::getline(is, line)) {
    Json::Value e;
    std::string errs;
    std::istringstream ls(line);
    if (Json::parseFromStream(rb, ls, &e, &errs) && e["ev"].asString() == "plugin" && e["m"].asString() != "init" && e["m"].asString() != "destroy") {
      arr.append(e["m"].asString() + ":" + e["id"].asString() + "#" + e["inst"].asString());
    }
  }
  return arr;
}

static Json::Value answer(const Json::Value& q) {
  Json::Value out;
  std::string kind = q["q"].asString();
  if (kind == "path") {
    Oomd::CgroupPath p(q["fs"].asString(), q["p"].asString());
    out = path_info(p);
    Json::Value ch(Json::arrayValue);
    for (const auto& c : q["children"]) {
      Oomd::CgroupPath child = p.getChild(c.asString());
      Json::Value o;
      o["abs"] = child.absolutePath();
      o["parent_is_self"] = child.isRoot() ? Json::Value() : Json::Value(child.getParent() == p);
      o["parent_abs"] = child.isRoot() ? Json::Value() : Json::Value(child.getParent().absolutePath());
      ch.append(o);
    }
    out["children"] = ch;
    if (!p.isRoot()) {
      out["parent"] = p.getParent().absolutePath();
    }
  } else if (kind == "pathseq") {
    // a derivation history on ONE object: after every step the object must be indistinguishable (==, hash, container
    // lookup) from a CgroupPath constructed afresh from its own printed form
    std::string fs = q["fs"].asString();
    Oomd::CgroupPath cur(fs, q["p"].asString());
    std::unordered_set<Oomd::CgroupPath> seen;
    Json::Value steps(Json::arrayValue);
    for (const auto& opv : q["ops"]) {
      std::string op = opv.asString();
      if (op == "h") {
        seen.insert(cur);
      } else if (op == "p") {
        if (!cur.isRoot()) {
          cur = cur.getParent();
        }
      } else if (op == "copy") {
        Oomd::CgroupPath tmp(cur);
        cur = tmp;
      } else if (op.rfind("c:", 0) == 0) {
        cur = cur.getChild(op.substr(2));
      }
      Oomd::CgroupPath fresh(fs, cur.relativePath());
      Json::Value o;
      o["abs"] = cur.absolutePath();
      o["rel"] = cur.relativePath();
      o["eq"] = (cur == fresh) && !(cur != fresh);
      o["hash_eq"] = std::hash<Oomd::CgroupPath>{}(cur) == std::hash<Oomd::CgroupPath>{}(fresh);
      o["found"] = (seen.count(cur) > 0) == (seen.count(fresh) > 0);
      steps.append(o);
    }
    out["steps"] = steps;
    out["distinct"] = (Json::UInt64)seen.size();
  } else if (kind == "eq") {
    Oomd::CgroupPath a(q["fs"].asString(), q["a"].asString()), b(q.get("fs2", q["fs"]).asString(), q["b"].asString());
    out["eq"] = a == b;
    out["ne"] = a != b;
    out["hash_eq"] = std::hash<Oomd::CgroupPath>{}(a) == std::hash<Oomd::CgroupPath>{}(b);
    out["abs_eq"] = a.absolutePath() == b.absolutePath();
  } else if (kind == "match") {
    Oomd::CgroupPath a("/x/cg", q["path"].asString()), b("/x/cg", q["pattern"].asString());
    out["m"] = a.hasDescendantWithPrefixMatching(b);
  } else if (kind == "resolve") {
    Oomd::CgroupPath p(q["fs"].asString(), q["pattern"].asString());
    Json::Value r(Json::arrayValue);
    for (const auto& x : p.resolveWildcard()) {
      r.append(x.absolutePath());
    }
    out["r"] = r;
  } else if (kind == "parseCgroup") {
    Oomd::PluginConstructionContext cc(q["fs"].asString());
    Json::Value r(Json::arrayValue);
    for (const auto& x : Oomd::PluginArgParser::parseCgroup(cc, q["s"].asString())) {
      r.append(x.absolutePath());
    }
    out["r"] = r;
  } else if (kind == "size") {
    int64_t v = 0x5a5a5a5a5a5a5a5aLL;
    int rc = Oomd::Util::parseSize(q["s"].asString(), &v);
    out["rc"] = rc;
    out["v"] = (Json::Int64)v;
  } else if (kind == "sizepct") {
    int64_t v = 0x5a5a5a5a5a5a5a5aLL;
    int rc = Oomd::Util::parseSizeOrPercent(q["s"].asString(), &v, q["total"].asInt64());
    out["rc"] = rc;
    out["v"] = (Json::Int64)v;
  } else if (kind == "value") {
    std::string t = q["type"].asString(), s = q["s"].asString();
    if (t == "int") {
      value_query<int>(s, out, [](const int& v) { return Json::Value(v); });
    } else if (t == "int64") {
      value_query<int64_t>(s, out, [](const int64_t& v) { return Json::Value((Json::Int64)v); });
    } else if (t == "double") {
      value_query<double>(s, out, [](const double& v) { return Json::Value(v); });
    } else if (t == "float") {
      value_query<float>(s, out, [](const float& v) { return Json::Value((double)v); });
    } else if (t == "bool") {
      value_query<bool>(s, out, [](const bool& v) { return Json::Value(v); });
    } else if (t == "ms") {
      value_query<std::chrono::milliseconds>(s, out, [](const std::chrono::milliseconds& v) { return Json::Value((Json::Int64)v.count()); });
    } else if (t == "resource") {
      value_query<Oomd::ResourceType>(s, out, [](const Oomd::ResourceType& v) { return Json::Value(v == Oomd::ResourceType::IO ? "io" : "memory"); });
    } else if (t == "uint") {
      try {
        out["v"] = Oomd::PluginArgParser::parseUnsignedInt(s);
        out["ok"] = true;
      } catch (const std::exception& e) {
        out["ok"] = false;
        out["exc"] = demangle(typeid(e).name());
      }
    }
  } else if (kind == "config") {
    // full load path: parse, then compile.  Exceptions are recorded, not swallowed silently:
    // the oracle decides per load path whether somebody would have caught them.
    size_t ev0;
    {
      std::lock_guard<std::mutex> l(g.mu);
      ev0 = g.buf.size();
    }
    std::unique_ptr<Oomd::Config2::IR::Root> ir;
    try {
      Oomd::Config2::JsonConfigParser parser;
      ir = parser.parse(q["text"].asString());
      out["parse"] = ir ? "ok" : "null";
    } catch (const std::exception& e) {
      out["parse"] = "exception";
      out["parse_exc"] = demangle(typeid(e).name());
    }
    if (ir) {
      Json::Value irj;
      irj["rulesets"] = (Json::UInt64)ir->rulesets.size();
      irj["hooks"] = (Json::UInt64)ir->prekill_hooks.size();
      out["ir"] = irj;
      try {
        Oomd::PluginConstructionContext cc(q.get("fs", "/dev/shm").asString());
        auto engine = Oomd::Config2::compile(*ir, cc);
        out["compile"] = engine ? "ok" : "null";
      } catch (const std::exception& e) {
        out["compile"] = "exception";
        out["compile_exc"] = demangle(typeid(e).name());
        out["compile_what"] = e.what();
        out["throw_site"] = g.last_throw;
      }
    }
    // init events of scripted plugins produced by this query
    std::lock_guard<std::mutex> l(g.mu);
    std::string evs = g.buf.substr(ev0);
    g.buf.clear();
    Json::Value arr(Json::arrayValue);
    std::istringstream is(evs);
    std::string line;
    Json::CharReaderBuilder rb;
    while (std::getline(is, line)) {
      Json::Value e;
      std::string errs;
      std::istringstream ls(line);
      if (Json::parseFromStream(rb, ls, &e, &errs) && e["m"].asString() == "init") {
        Json::Value c;
        c["kind"] = e.get("kind", "hook");
        c["id"] = e["id"];
        c["args"] = e["args"];
        arr.append(c);
      }
    }
    out["inits"] = arr;
  } else if (kind == "dropin_load") {
    // the run-time load path of FsDropInService::processDropInAdd, reproduced step by step
    Oomd::Config2::JsonConfigParser parser;
    auto base = parser.parse(q["base"].asString());
    Oomd::PluginConstructionContext cc("/dev/shm");
    auto engine = Oomd::Config2::compile(*base, cc);
    if (!engine) {
      out["err"] = "base config does not compile";
      return out;
    }
    Oomd::OomdContext ctx;
    QAdaptor ad("/dev/shm", *base, *engine);
    out["before"] = tick_ids(*engine, ctx);
    std::unique_ptr<Oomd::Config2::IR::Root> dr;
    try {
      dr = parser.parse(q["dropin"].asString());
      out["parse"] = dr ? "ok" : "null";
    } catch (const std::exception& e) {
      out["parse"] = "rejected"; // processDropInAdd catches std::exception around parse()
      out["parse_exc"] = demangle(typeid(e).name());
    }
    if (dr) {
      // scheduleDropInAdd runs on the watcher thread with no handler around it:
      // anything thrown here would terminate the daemon
      try {
        out["schedule"] = ad.scheduleDropInAdd("t.json", *dr);
      } catch (const std::exception& e) {
        out["schedule"] = "exception";
        out["schedule_exc"] = demangle(typeid(e).name());
        out["schedule_what"] = e.what();
        out["throw_site"] = g.last_throw;
      }
      ad.updateDropIns();
      Json::Value rs(Json::arrayValue);
      for (auto& r : ad.results) {
        rs.append(r.first + (r.second ? ":ok" : ":fail"));
      }
      out["apply"] = rs;
    }
    {
      std::lock_guard<std::mutex> l(g.mu);
      g.buf.clear();
    }
    out["after"] = tick_ids(*engine, ctx);
  } else if (kind == "dropin_seq") {
    // DropInServiceAdaptor level: a sequence of add/remove operations, one main-loop tick after each
    Oomd::Config2::JsonConfigParser parser;
    auto base = parser.parse(q["base"].asString());
    std::string fs = g.root + "/cg";
    for (const auto& pr : q["probes"]) {
      mkdirs(fs + "/" + pr.asString());
    }
    Oomd::PluginConstructionContext cc(fs);
    auto engine = Oomd::Config2::compile(*base, cc);
    if (!engine) {
      out["err"] = "base config does not compile";
      return out;
    }
    Oomd::OomdContext ctx;
    ctx.setPrekillHooksHandler([&](const Oomd::CgroupContext& c) { return engine->firePrekillHook(c, ctx); });
    // "adaptor_base": the IR root handed to the adaptor (what compileDropIn validates against). When it knows a ruleset
    // the engine was not compiled with, a drop-in for that ruleset passes compileDropIn and is refused by
    // Engine::addDropInConfig itself - the only way to reach that refusal (and its partial-add cleanup) through the adaptor.
    std::unique_ptr<Oomd::Config2::IR::Root> abase;
    if (q.isMember("adaptor_base")) {
      abase = parser.parse(q["adaptor_base"].asString());
    }
    QAdaptor ad(fs, abase ? *abase : *base, *engine);
    Oomd::setStat("oomd.dropin.added", 0);
    Json::Value steps(Json::arrayValue);
    auto snapshot = [&](Json::Value& st) {
      st["tick"] = tick_ids(*engine, ctx);
      Json::Value hooks(Json::objectValue);
      for (const auto& pr : q["probes"]) {
        size_t ev0;
        {
          std::lock_guard<std::mutex> l(g.mu);
          ev0 = g.buf.size();
        }
        std::string fired = "";
        if (auto c = ctx.addToCacheAndGet(Oomd::CgroupPath(fs, pr.asString()))) {
          auto inv = ctx.firePrekillHook(c->get());
          std::lock_guard<std::mutex> l(g.mu);
          std::string evs = g.buf.substr(ev0);
          auto pos = evs.find("\"m\":\"fire\"");
          if (pos != std::string::npos) {
            auto line_start = evs.rfind('\n', pos);
            std::string line = evs.substr(line_start == std::string::npos ? 0 : line_start + 1);
            line = line.substr(0, line.find('\n'));
            Json::Value e;
            std::string errs;
            std::istringstream ls(line);
            Json::CharReaderBuilder rb;
            if (Json::parseFromStream(rb, ls, &e, &errs)) {
              fired = e["id"].asString();
            }
          }
        } else {
          fired = "<no-context>";
        }
        {
          std::lock_guard<std::mutex> l(g.mu);
          g.buf.erase(ev0);
        }
        hooks[pr.asString()] = fired;
      }
      st["hooks"] = hooks;
      auto stats = Oomd::getStats();
      st["added"] = stats.count("oomd.dropin.added") ? stats["oomd.dropin.added"] : -999;
    };
    {
      Json::Value st;
      snapshot(st);
      steps.append(st);
    }
    for (const auto& op : q["ops"]) {
      Json::Value st;
      ad.results.clear();
      if (op["op"].asString() == "add") {
        std::unique_ptr<Oomd::Config2::IR::Root> dr;
        try {
          dr = parser.parse(op["text"].asString());
        } catch (const std::exception& e) {
          st["sched"] = "parse-rejected";
        }
        if (dr) {
          try {
            st["sched"] = ad.scheduleDropInAdd(op["tag"].asString(), *dr);
          } catch (const std::exception& e) {
            st["sched"] = std::string("exception:") + demangle(typeid(e).name());
          }
        }
      } else {
        ad.scheduleDropInRemove(op["tag"].asString());
        st["sched"] = true;
      }
      if (op.get("defer", false).asBool()) {
        // no main-loop tick yet: the request stays queued behind the adaptor's mutex
        st["deferred"] = true;
        steps.append(st);
        continue;
      }
      ad.updateDropIns();
      Json::Value rs(Json::arrayValue);
      for (auto& r : ad.results) {
        rs.append(r.first + (r.second ? ":ok" : ":fail"));
      }
      st["apply"] = rs;
      {
        std::lock_guard<std::mutex> l(g.mu);
        g.buf.clear();
      }
      ctx.refresh();
      snapshot(st);
      steps.append(st);
    }
    out["steps"] = steps;
  } else {
    out["err"] = "unknown query";
  }
  return out;
}

static int drv_q(int argc, char** argv) {
  if (argc < 2) {
    fprintf(stderr, "usage: vsim q <in.jsonl> <out.jsonl> [start end]\n");
    return 2;
  }
  long start = 0, end = 1L << 60;
  std::string outpath = argv[1];
  if (argc >= 4) {
    start = atol(argv[2]);
    end = atol(argv[3]);
    outpath += "/q." + std::string(argv[2]) + ".jsonl";
  }
  setenv("INLINE_LOGGING", "1", 1);
  // oomd logs to stderr; keep it out of the way but available for crash reports
  Oomd::Log::init("/dev/null");
  g.root = "/dev/shm/vq." + std::to_string(getpid());
  mkdirs(g.root + "/cg");
  Oomd::Stats::init(g.root + "/stats.sock");
  g.armed = true; // record plugin init events and throw sites; no scratch root => no redirection
  std::ifstream in(argv[0]);
  FILE* out = fopen(outpath.c_str(), "w");
  if (!in.is_open() || !out) {
    return 2;
  }
  std::string line;
  Json::CharReaderBuilder rb;
  long idx = -1;
  while (std::getline(in, line)) {
    ++idx;
    if (idx < start || idx >= end) {
      continue;
    }
    Json::Value q;
    std::string errs;
    std::istringstream is(line);
    if (!Json::parseFromStream(rb, is, &q, &errs)) {
      fprintf(stderr, "bad query json line %ld\n", idx);
      return 2;
    }
    fprintf(stderr, "@@QUERY %ld\n", idx);
    Json::Value a;
    try {
      a = answer(q);
    } catch (const std::exception& e) {
      a["uncaught"] = demangle(typeid(e).name());
      a["what"] = e.what();
      a["throw_site"] = g.last_throw;
    }
    a["i"] = (Json::Int64)idx;
    fprintf(out, "%s\n", jstr(a).c_str());
    fflush(out);
  }
  fclose(out);
  {
    Bypass b;
    rmtree(g.root);
  }
  fflush(nullptr);
  _exit(0); // skip static destructors (~Stats talks to its own socket)
}
VH_DRIVER(q, drv_q);

// vsim pathpairs <alphabet> <maxlen> <out>: hasDescendantWithPrefixMatching over all (path, pattern) pairs,
// one character per pair, strings enumerated in length-then-lexicographic order of the alphabet.
static void gen_strings(const std::string& alpha, int maxlen, std::vector<std::string>& out) {
  out.push_back("");
  size_t begin = 0;
  for (int len = 1; len <= maxlen; ++len) {
    size_t end = out.size();
    for (size_t i = begin; i < end; ++i) {
      for (char c : alpha) {
        out.push_back(out[i] + c);
      }
    }
    begin = end;
  }
}

static int drv_pathpairs(int argc, char** argv) {
  if (argc < 3) {
    return 2;
  }
  std::vector<std::string> strs;
  gen_strings(argv[0], atoi(argv[1]), strs);
  std::vector<Oomd::CgroupPath> paths;
  for (const auto& s : strs) {
    paths.emplace_back("/x/cg", s);
  }
  FILE* out = fopen(argv[2], "w");
  std::string row;
  for (size_t i = 0; i < paths.size(); ++i) {
    row.clear();
    for (size_t j = 0; j < paths.size(); ++j) {
      row.push_back(paths[i].hasDescendantWithPrefixMatching(paths[j]) ? '1' : '0');
    }
    row.push_back('\n');
    fwrite(row.data(), 1, row.size(), out);
  }
  fclose(out);
  return 0;
}
VH_DRIVER(pathpairs, drv_pathpairs);

} // namespace vh
