"""Reference for victim selection (C03, C09): documented ranking policies in exact arithmetic and the
documented candidate walk (prefer > normal > avoid, recursive descent one level at a time, never below
memory.oom.group=1, skip unpopulated, fall back in rank order)."""
import math
from fractions import Fraction as F

from oracles import cgroup as CG
from oracles import path as P

KILL_PLUGINS = ["kill_by_memory_size_or_growth", "kill_by_swap_usage", "kill_by_pressure", "kill_by_io_cost", "kill_by_pg_scan"]


def parse_bool(s, default=False):
    if s is None:
        return default
    return s in ("true", "True", "1")


def exact_size_or_percent(s, total):
    """documented reading of a threshold: N% of total, bare number = megabytes, else K/M/G/T components"""
    s = s.strip()
    if s.endswith("%"):
        return F(total) * F(int(s[:-1])) / 100
    try:
        return F(int(s)) * (1 << 20)
    except ValueError:
        pass
    mult = {"k": 1 << 10, "m": 1 << 20, "g": 1 << 30, "t": 1 << 40}
    tot = F(0)
    num = ""
    for ch in s.lower().replace(" ", ""):
        if ch in mult:
            tot += F(num) * mult[ch]
            num = ""
        else:
            num += ch
    if num:
        tot += F(num)
    return tot


class Ranker:
    """keys(view, temporal, siblings) -> {rel: key}  (missing rel = filtered out by the plugin);
    ordering = (preference desc, key desc).  `eps` is the relative band inside which two keys count as tied."""

    def __init__(self, plugin, args, view):
        self.plugin = plugin
        self.args = args
        self.eps = 1e-6

    def keys(self, view, temporal, sibs):
        a = self.args
        out = {}
        if self.plugin == "kill_by_swap_usage":
            mi = view.meminfo
            swap_total = mi.get("SwapTotal", 0)
            mem_total = mi.get("MemTotal", 0)
            thr = exact_size_or_percent(a.get("threshold", "1"), swap_total) if "threshold" in a else F(1)
            biased = parse_bool(a.get("biased_swap_kill"))
            for s in sibs:
                u = view.swap_usage(s) or 0
                if not (u > thr):
                    continue
                if biased:
                    prot = view.protection(s)
                    if prot is not None and mem_total > 0:
                        ratio = F(swap_total, mem_total)
                        out[s] = max(F(0), F(u) - ratio * math.floor(prot))
                    elif prot is not None:
                        out[s] = F(u)
                    else:
                        out[s] = F(u)
                else:
                    out[s] = F(u)
            return out
        if self.plugin == "kill_by_pressure":
            res = a.get("resource", "memory")
            for s in sibs:
                p = view.psi(s, res, "full")
                out[s] = (F(p[0]) + F(p[1])) / 2 if p else F(0)
            return out
        if self.plugin == "kill_by_io_cost":
            for s in sibs:
                out[s] = temporal.get(s, {}).get("io_cost_rate") or F(0)
            return out
        if self.plugin == "kill_by_pg_scan":
            for s in sibs:
                r = temporal.get(s, {}).get("pg_scan_rate")
                if r is not None and r > 0:
                    out[s] = F(r)
            return out
        if self.plugin == "kill_by_memory_size_or_growth":
            size_thr = int(a.get("size_threshold", "50"))
            pctl = int(a.get("growing_size_percentile", "80"))
            mgr = F(a.get("min_growth_ratio", "1.25"))
            total = sum((view.current(s) or 0) for s in sibs)
            eff = {s: (view.effective_usage(s) if view.effective_usage(s) is not None else F(0)) for s in sibs}
            gthr = F(0)
            if sibs and pctl > 0:
                nth = math.ceil(F(len(sibs)) * (100 - pctl) / 100) - 1
                gthr = sorted(eff.values(), reverse=True)[nth]
            self.amb = set()
            for s in sibs:
                cur = view.current(s) or 0
                size_ok = F(cur) * 100 >= F(total) * size_thr
                if abs(F(cur) * 100 - F(total) * size_thr) <= 100 + F(total) * size_thr / 10**9:
                    self.amb.add(s)
                avg = temporal.get(s, {}).get("average_usage")
                growth = F(0)
                if avg is not None and math.floor(avg) != 0:
                    growth = F(cur) / math.floor(avg)
                if avg is not None and math.floor(avg) != 0 and abs(growth - mgr) <= mgr / 10**5:
                    self.amb.add(s)
                grow_ok = growth >= mgr and eff[s] >= gthr
                out[s] = (eff[s] if size_ok else F(0), growth if grow_ok else F(0), eff[s])
            return out
        raise ValueError(self.plugin)


def tie_groups(keys, prefs, eps=1e-6):
    """-> list of groups (lists of rel), best first; members of a group are mutually tied within eps"""
    items = sorted(keys.items(), key=lambda kv: (prefs[kv[0]], kv[1]), reverse=True)
    groups = []
    for rel, k in items:
        if groups:
            last = groups[-1][-1]
            if prefs[last] == prefs[rel] and _tied(keys[last], k, eps):
                groups[-1].append(rel)
                continue
        groups.append([rel])
    return groups


def _tied(a, b, eps):
    if isinstance(a, tuple):
        # lexicographic tuple: tied only if every component is tied
        return all(_tied(x, y, eps) for x, y in zip(a, b))
    d = abs(a - b)
    return d <= eps * max(abs(a), abs(b)) + F(1, 1000)


class Walk:
    """enumerates every attempt sequence the documented walk allows (ties => alternatives)"""

    def __init__(self, view, temporal, plugin, args, outcome, cap=4000):
        self.v = view
        self.t = temporal
        self.plugin = plugin
        self.args = args
        self.recursive = parse_bool(args.get("recursive"))
        self.outcome = outcome  # rel -> True if a kill attempt on it signals >= 1 process
        self.cap = cap
        self.overflow = False
        self.ambiguous = False

    def ranked_groups(self, sibs):
        rk = Ranker(self.plugin, self.args, self.v)
        keys = rk.keys(self.v, self.t, sibs)
        if getattr(rk, "amb", None):
            if any(s in rk.amb for s in sibs):
                self.ambiguous = True
        prefs = {s: self.v.pref(s) for s in keys}
        return tie_groups(keys, prefs)

    def seqs_for_siblings(self, sibs):
        """-> list of (attempt list, succeeded) alternatives for walking this sibling set in rank order"""
        groups = self.ranked_groups(sibs)
        alts = [([], False)]
        for g in groups:
            new = []
            import itertools
            perms = list(itertools.permutations(g)) if len(g) <= 4 else None
            if perms is None:
                self.overflow = True
                perms = [tuple(g)]
            for prefix, done in alts:
                if done:
                    new.append((prefix, True))
                    continue
                for perm in perms:
                    cur = [(list(prefix), False)]
                    for cand in perm:
                        nxt = []
                        for pre2, d2 in cur:
                            if d2:
                                nxt.append((pre2, True))
                                continue
                            for seq, ok in self.expand(cand):
                                nxt.append((pre2 + seq, ok))
                        cur = nxt
                    new.extend(cur)
            # dedupe
            seen, alts = set(), []
            for a in new:
                k = (tuple(a[0]), a[1])
                if k not in seen:
                    seen.add(k)
                    alts.append(a)
            if len(alts) > self.cap:
                self.overflow = True
                alts = alts[:self.cap]
        return alts

    def expand(self, cand):
        v = self.v
        if self.recursive and not (v.oom_group(cand) or False):
            kids = v.w.children(cand)
            if kids:
                return self.seqs_for_siblings(kids)
        pop = v.populated(cand)
        if pop is False:
            return [([], False)]
        ok = self.outcome(cand)
        return [([cand], ok)]

    def sequences(self, roots):
        return self.seqs_for_siblings(roots)


def victim_eligible(victim, patterns, dirs, recursive):
    roots = P.resolve_many(patterns, dirs)
    if victim in roots:
        return True
    if recursive:
        return any(P.is_desc_or_self(victim, r) for r in roots)
    return False
