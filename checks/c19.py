"""C19 Stats service: atomic counters, total protocol, clean shutdown."""
import json
import random

from vlib import core, threads
from oracles import lin

ID = "C19"
LEVEL = "exploration"
FLAVORS = ["tsan", "asan"]
TECHNIQUE = "runtime monitoring: ThreadSanitizer build of the real Stats server driven by API threads and raw socket clients; linearizability search and protocol/shutdown oracles over the recorded client-side history"
RULE = ("one process per batch under ThreadSanitizer, a fresh Stats instance per history: 3-4 threads x 3-5 operations from {increment, set, "
        "reset, getAll, socket `g`/`r` via StatsClient, raw socket clients} on 2 keys, every call recorded at the client boundary "
        "{thread, op, args, call seq, result, return seq} and searched for a linearization against a sequential map; long conservation runs "
        "(N threads x M increments => exact sums, reset zeroes but keeps every key); hundreds of tiny histories on a fresh service in which a counter is created under contention (exact sums) and of reset against readers and updaters of two keys; snapshot histories (each writer bumps its own two existing counters in a fixed order among 0-300 other counters; every getAll / `g` reply must show them 0 or 1 apart: a reply is one snapshot); raw clients: all 256 first bytes x {\\n, \\0, EOF, 31 "
        "more bytes, 40 bytes}, random strings, half-close, RST, close before reading the reply, stall past the 2 s timeout: each "
        "connection (incl. slow but live readers of a several-hundred-KiB `g` reply over 12000-40000 counters) gets <=1 reply which is JSON with error in {0,1} matching the mode byte and a body object, then EOF; the server "
        "survives (SIGPIPE has its default disposition, as in oomd) and keeps serving; ~Stats completes with clients dangling in every "
        "state; socket path lengths 100..120/200/4096 (ASan build): init fails iff the path does not fit sun_path with its NUL. Zero "
        "ThreadSanitizer reports. non-trivial = histories with real overlap (>=2 operations concurrent); distinct by history")
ASSUMPTIONS = ["call/return sequence numbers come from one atomic counter in the driver", "a linearizability search that exceeds its budget is inconclusive"]
SERIAL_JUDGE = True
MIN_NONTRIVIAL = 1
KEYS = ["a", "b"]


def gen_history(rng):
    nth = rng.choice([3, 3, 4])
    ths = []
    for t in range(nth):
        ops = []
        for _ in range(rng.randint(3, 5)):
            r = rng.random()
            if r < 0.4:
                ops.append({"op": "inc", "k": rng.choice(KEYS), "v": rng.choice([1, 2, 5])})
            elif r < 0.55:
                ops.append({"op": "set", "k": rng.choice(KEYS), "v": rng.choice([0, 10, 100])})
            elif r < 0.65:
                ops.append({"op": "reset"})
            elif r < 0.85:
                ops.append({"op": "get"})
            elif r < 0.93:
                ops.append({"op": "cget"})
            else:
                ops.append({"op": "creset"})
        ths.append(ops)
    return {"init": {"a": rng.choice([0, 3])}, "threads": ths}


def gen_creation(rng):
    """a counter comes into being under contention: a fresh service, 3-4 threads whose first operation is an increment of the
    same not-yet-existing key; no set / reset, so the final value of every key is exactly the sum of its increments"""
    nth = rng.choice([2, 3, 4, 4])
    ths = []
    for t in range(nth):
        ops = [{"op": "inc", "k": "a", "v": rng.choice([1, 2, 5])}]
        for _ in range(rng.choice([0, 0, 1, 2])):
            ops.append(rng.choice([{"op": "inc", "k": rng.choice(KEYS), "v": rng.choice([1, 3])}, {"op": "get"}]))
        ths.append(ops)
    return {"init": {}, "threads": ths, "exact_sums": True}


def gen_reset_race(rng):
    """reset against concurrent updates and readers of two keys: a reader must never see one key reset and the other not"""
    ths = [[{"op": rng.choice(["reset", "reset", "creset"])}] + ([{"op": "get"}] if rng.random() < 0.5 else []),
           [{"op": rng.choice(["get", "get", "cget"])} for _ in range(rng.randint(2, 4))],
           [{"op": "inc", "k": rng.choice(KEYS), "v": 1} for _ in range(rng.randint(1, 3))]]
    if rng.random() < 0.4:
        ths.append([{"op": "get"}, {"op": "set", "k": "b", "v": 10}, {"op": "get"}])
    return {"init": {"a": rng.choice([3, 7]), "b": rng.choice([5, 9])}, "threads": ths}


def gen_conservation(rng):
    nth, m = rng.choice([(4, 300), (8, 150)]), None
    nth, m = nth
    return {"init": {}, "threads": [[{"op": "inc", "k": KEYS[(t + i) % 2], "v": 1} for i in range(m)] + [{"op": "get"}] for t in range(nth)], "conservation": [nth, m]}


def gen_snapshot(rng):
    """a reply is ONE snapshot of the table: each writer bumps its own two (existing) counters strictly in the order first, second,
    so in any snapshot 0 <= first - second <= 1; readers (direct and over the socket) look at both in the same reply while a few
    hundred other counters make the copy take its time"""
    nw = rng.choice([2, 3, 4])
    init = {"f%03d" % i: i for i in range(rng.choice([0, 100, 300]))}
    ths = []
    for w in range(nw):
        init["p%da" % w] = 0
        init["p%db" % w] = 0
        ths.append([{"op": "inc", "k": "p%d%s" % (w, ab), "v": 1} for _ in range(rng.choice([150, 300])) for ab in "ab"])
    for _ in range(2):
        ths.append([{"op": rng.choice(["get", "get", "cget"])} for _ in range(rng.choice([100, 200]))])
    return {"init": init, "threads": ths, "snapshot": nw}


def raw(bytes_, behave="normal", **kw):
    d = {"op": "raw", "bytes": list(bytes_), "behave": behave}
    d.update(kw)
    return d


def gen_protocol(rng, firsts):
    ths = [[], [], []]
    i = 0
    for fb in firsts:
        for tail in ([10], [0], [], [ord("x")] * 30 + [10], [ord("y")] * 39):
            ths[i % 3].append(raw([fb] + tail))
            i += 1
    for _ in range(20):
        n = rng.randint(0, 40)
        ths[i % 3].append(raw([rng.randrange(256) for _ in range(n)], rng.choice(["normal", "halfclose", "close_early", "rst"])))
        i += 1
    for t in ths:
        t.append({"op": "cget"})
    return {"init": {"a": 7}, "threads": ths, "protocol": True, "dangling": rng.sample(["silent", "partial", "noread", "drip"], 3)}


def gen_bulk(rng):
    """a `g` reply of several hundred KiB to clients that read slowly but never stop for long (well inside the 2 s timeout)"""
    n = rng.choice([12000, 20000, 40000])
    ths = [[raw([ord("g"), 10], "slow", chunk=rng.choice([4096, 65536, 300000]), pause_ms=rng.choice([1, 10, 40]))],
           [raw([ord("g"), 0], "slow", chunk=rng.choice([1000, 65536]), pause_ms=rng.choice([300, 500, 800]), pauses=rng.choice([1, 2]))],
           [{"op": "inc", "k": "a", "v": 1}, raw([ord("g"), 10], "slow", chunk=1 << 20, pause_ms=0), {"op": "inc", "k": "a", "v": 1}]]
    return {"init": {"a": 1}, "bulk_keys": n, "threads": ths, "protocol": True, "bulk": n}


def gen_render_race(rng, delay_us):
    """updates landing while a very large `g` reply is being produced, each followed by the updater's own `g`: what returned before
    a request was sent must be in its reply (the reply takes long to build, so the window in which an update can slip past it is wide)"""
    n = rng.choice([20000, 30000])
    fast = dict(chunk=1 << 20, pause_ms=0)
    ths = [[raw([ord("g"), 10], "slow", **fast), {"op": "sleep_us", "us": 2000}, raw([ord("g"), 10], "slow", **fast)],
           [{"op": "sleep_us", "us": delay_us}, {"op": "inc", "k": "a", "v": 1}, raw([ord("g"), 10], "slow", **fast)],
           [{"op": "sleep_us", "us": delay_us * 2 + 500}, rng.choice([{"op": "inc", "k": "b", "v": 2}, {"op": "set", "k": "a", "v": 50}]),
            raw([ord("g"), 0], "slow", **fast)]]
    return {"init": {"a": 1, "b": 0}, "bulk_keys": n, "threads": ths, "protocol": True, "bulk": n, "render_race": delay_us}


def gen_fdflood(rng):
    """the service runs out of file descriptors (idle connections), accept() fails for a while; once descriptors are free again
    it must serve requests as before"""
    return {"init": {"a": 4}, "threads": [[{"op": "fdflood", "hold_us": rng.choice([100000, 400000])}, {"op": "cget"}, {"op": "inc", "k": "a", "v": 1}, {"op": "cget"}]],
            "protocol": True, "fdflood": True}


def gen_stall(rng):
    return {"init": {"a": 1}, "threads": [[raw([], "stall", stall_ms=2300), {"op": "cget"}], [raw([ord("g")], "stall", stall_ms=2300)],
                                           [{"op": "inc", "k": "a", "v": 1}, {"op": "cget"}]], "protocol": True, "stall": True}


def cases(seed, tier):
    quick = tier != "thorough"
    rng = random.Random(seed * 1000003 + 19)
    nh = 240 if quick else 3000
    scns = []
    per = 40 if quick else 100
    hs = [gen_history(rng) if i % 3 else gen_reset_race(rng) for i in range(nh)]
    nc = 400 if quick else 6000
    cs = [gen_creation(rng) for _ in range(nc)]
    for i in range(0, nc, 100):
        scns.append({"mode": "histories", "seed": rng.randint(1, 10**6), "yield_us": rng.choice([0, 0, 10]), "mutex_yield_ppm": rng.choice([0, 20000, 200000, 500000]), "histories": cs[i:i + 100], "kind": "creation"})
    for i in range(0, nh, per):
        scns.append({"mode": "histories", "seed": rng.randint(1, 10**6), "yield_us": rng.choice([0, 10, 50]), "mutex_yield_ppm": rng.choice([0, 20000, 200000]), "histories": hs[i:i + per], "kind": "lin"})
    for _ in range(2 if quick else 10):
        scns.append({"mode": "histories", "seed": rng.randint(1, 10**6), "histories": [gen_conservation(rng)], "kind": "conservation"})
    for _ in range(4 if quick else 30):
        scns.append({"mode": "histories", "seed": rng.randint(1, 10**6), "yield_us": 0, "mutex_yield_ppm": rng.choice([0, 20000]), "histories": [gen_snapshot(rng)], "kind": "snapshot"})
    allb = list(range(256))
    chunks = [allb[i:i + 32] for i in range(0, 256, 32)] if not quick else [[ord("g"), ord("r"), ord("0"), ord("a"), 0, 10, 255, ord("G")], rng.sample(allb, 24)]
    for ch in chunks:
        scns.append({"mode": "histories", "seed": rng.randint(1, 10**6), "histories": [gen_protocol(rng, ch)], "kind": "protocol"})
    for _ in range(1 if quick else 20):
        scns.append({"mode": "histories", "seed": rng.randint(1, 10**6), "histories": [gen_stall(rng)], "kind": "stall"})
    for _ in range(2 if quick else 20):
        scns.append({"mode": "histories", "seed": rng.randint(1, 10**6), "histories": [gen_bulk(rng)], "kind": "bulk"})
    for _ in range(2 if quick else 12):
        scns.append({"mode": "histories", "seed": rng.randint(1, 10**6), "histories": [gen_fdflood(rng)], "kind": "fdflood"})
    # sweep the moment of the update across the time a 20000-counter reply takes to build (measured per run: see render_ms)
    nrr = 24 if quick else 200
    for i in range(0, nrr, 6):
        scns.append({"mode": "histories", "seed": rng.randint(1, 10**6), "kind": "render_race",
                     "histories": [gen_render_race(rng, int(120000 * (j + rng.random()) / nrr)) for j in range(i, i + 6)]})
    yield core.Case("C19-tsan", scns, {"n": len(scns)}, driver="stats", flavor="tsan")
    yield core.Case("C19-paths", [{"mode": "paths", "lengths": list(range(100, 121)) + [200, 4096], "kind": "paths"}], {}, driver="stats", flavor="asan")


def run_batch(driver, flavor, scns):
    return threads.run(driver, scns, flavor, timeout=180)


def expected_error(bytes_):
    if not bytes_ or bytes_[0] in (0, 10):
        return 1
    return 0 if chr(bytes_[0]) in "gr0" else 1


def judge_history(v, scn, h, hout):
    ops = hout["ops"]
    lin_ops = []
    overlap = 0
    for o in ops:
        kind = o["op"]
        if kind == "raw":
            if not o.get("connected"):
                v.bad("server-refuses-connection", "", "raw client could not connect: %s" % o)
                continue
            beh = o.get("behave", "normal")
            rep = o.get("reply")
            if o.get("bulk") is not None:
                b = o["bulk"]
                v.count("bulk_replies")
                v.count("bulk_reply_bytes", b.get("len", 0))
                if b.get("timeout") or b.get("max_gap_ms", 0) >= 1500:
                    # the client itself (loaded machine) stayed away close to the server's 2 s patience: not a verdict
                    v.count("client_read_timeouts")
                elif not b.get("json") or b.get("error") != 0 or not b.get("body_is_object") or b.get("bulk_keys") != h["bulk"] or b.get("bulk_bad") or b.get("other_keys") != len(h.get("init", {})):
                    v.bad("bulk-reply", "truncated" if not b.get("json") else "content",
                          "a client reading a %d-counter `g` reply in %d-byte reads with %d ms pauses got %d bytes: %s" % (h["bulk"], o.get("chunk", 0), o.get("pause_ms", 0), b.get("len", 0), b))
                else:
                    # the small counters inside the big reply are read values like any other
                    lin_ops.append({"op": "raw_g", "th": o.get("th"), "call": o["call"], "ret": o["ret"], "res": b.get("other", {})})
                    if h.get("render_race") is not None:
                        v.count("render_race_reads")
                continue
            if rep is None:
                continue
            if "<TIMEOUT>" in rep:
                # wall-clock observation: inconclusive unless it is systematic (judged per batch)
                v.count("client_read_timeouts")
                v.stats.setdefault("_timeouts", []).append("client (bytes %s, %s) got no EOF from the server within 20 s: %r" % (o["bytes"][:8], beh, rep[:80]))
                continue
            if rep == "":
                complete = any(b in (0, 10) for b in o["bytes"][:32]) or len(o["bytes"]) == 32
                if beh in ("normal", "halfclose") and len(o["bytes"]) <= 32 and (complete or beh == "halfclose"):
                    v.bad("no-reply", "", "well-behaved client sending %s got no reply" % o["bytes"][:10])
                continue
            try:
                j = json.loads(rep)
            except ValueError:
                v.bad("reply-not-json", "", "client bytes %s behave %s: reply %r" % (o["bytes"][:8], beh, rep[:120]))
                continue
            if not isinstance(j, dict) or j.get("error") not in (0, 1) or not isinstance(j.get("body"), dict):
                v.bad("reply-malformed", "", "reply %r" % rep[:160])
                continue
            if j["error"] != expected_error(o["bytes"]):
                v.bad("reply-error-code", "", "request bytes %s: error=%s, expected %s" % (o["bytes"][:6], j["error"], expected_error(o["bytes"])))
            v.count("raw_replies")
            if o["bytes"] and chr(o["bytes"][0]) == "g" and j["error"] == 0:
                lin_ops.append({"op": "raw_g", "call": o["call"], "ret": o["ret"], "res": j["body"]})
            elif o["bytes"] and chr(o["bytes"][0]) == "r" and j["error"] == 0:
                lin_ops.append({"op": "raw_r", "call": o["call"], "ret": o["ret"]})
            continue
        if kind == "cget" and o.get("res") is None:
            v.bad("client-no-reply", "cget", "StatsClient::getStats() failed while the service was up")
            continue
        if kind == "creset" and o.get("res") != 0:
            v.bad("client-no-reply", "creset", "StatsClient::resetStats() returned %s" % o.get("res"))
            continue
        if kind == "fdflood":
            v.count("fd_exhaustion_episodes")
            v.count("idle_connections_held", o.get("idle_connections", 0))
            continue
        if kind != "sleep_us":
            lin_ops.append(o)
    for a in lin_ops:
        for b in lin_ops:
            if a is not b and a["call"] < b["call"] < a["ret"]:
                overlap += 1
    if h.get("exact_sums"):
        want = {}
        for th in h["threads"]:
            for o in th:
                if o["op"] == "inc":
                    want[o["k"]] = want.get(o["k"], 0) + o["v"]
        fin = {k: val for k, val in hout["final"].items() if k in KEYS}
        v.count("creation_histories")
        if fin != want:
            v.bad("lost-update", "key-creation", "fresh service, threads %s: final counters %s, sum of the increments %s" % (
                [[(o["op"], o.get("k"), o.get("v")) for o in th] for th in h["threads"]], fin, want))
    if h.get("snapshot"):
        for o in lin_ops:
            if o["op"] in ("get", "cget") and isinstance(o.get("res"), dict):
                v.count("snapshot_replies_audited")
                for w in range(h["snapshot"]):
                    a_, b_ = o["res"].get("p%da" % w), o["res"].get("p%db" % w)
                    if a_ is None or b_ is None or not (0 <= a_ - b_ <= 1):
                        v.bad("torn-snapshot", "", "one %s reply shows p%da=%s p%db=%s; the only writer of both increments a then b, so a - b is 0 or 1 in every consistent snapshot (%d other counters in the table)" % (
                            o["op"], w, a_, w, b_, len(h["init"]) - 2 * h["snapshot"]))
                        return overlap
        fin = hout["final"]
        for w in range(h["snapshot"]):
            n_ = sum(1 for o in h["threads"][w] if o["k"].endswith("a"))
            if fin.get("p%da" % w) != n_ or fin.get("p%db" % w) != n_:
                v.bad("lost-update", "snapshot", "writer %d incremented each of its counters %d times, final %s / %s" % (w, n_, fin.get("p%da" % w), fin.get("p%db" % w)))
        return overlap
    if h.get("conservation"):
        nth, m = h["conservation"]
        fin = hout["final"]
        if sum(fin.values()) != nth * m:
            v.bad("lost-update", "", "%d threads x %d increments: final counters %s" % (nth, m, fin))
        v.count("conservation_increments", nth * m)
        return overlap
    # raw resets / stalls make long protocol histories expensive: linearizability only on the short ones
    if len(lin_ops) <= 24:
        # unknown-key safe init
        ok, why = lin.check(lin_ops, dict(h.get("init", {})))
        if ok is None:
            v.count("lin_inconclusive")
        elif not ok:
            v.bad("not-linearizable", "", "no sequential order explains this history (init %s):\n%s" % (
                h.get("init"), "\n".join("   th%s %s %s -> %s  [%s,%s]" % (o.get("th"), o["op"], (o.get("k"), o.get("v")), o.get("res"), o["call"], o["ret"]) for o in sorted(lin_ops, key=lambda x: x["call"]))))
        else:
            v.count("linearizable_histories")
    return overlap


def judge(case, results):
    v = core.Verdict()
    nt = set()
    for scn, r in zip(case.scns, results):
        ck = threads.crash_of(r)
        if ck:
            v.bad("crash:" + ck[0], ck[1] + ("" if scn["kind"] not in ("stall", "protocol", "paths") else " [" + scn["kind"] + "]"), "batch kind %s\n%s" % (scn["kind"], ck[2]))
        for kind, sig, text in threads.tsan_reports(r["err"]):
            v.bad("tsan:" + kind, sig, text)
        out = r["out"]
        if out is None:
            if not ck:
                v.bad("no-output", scn["kind"], r["err"][-1500:])
            continue
        if scn["mode"] == "paths":
            size = out["sun_path_size"]
            for p in out["paths"]:
                fits = p["len"] + 1 <= size
                v.count("path_lengths")
                if (p["init"] == "ok") != fits:
                    v.bad("socket-path-length", "len=%d" % p["len"] if p["len"] < 130 else "long", "socket path of %d bytes (sun_path holds %d incl. NUL): init %s" % (p["len"], size, p["init"]))
            nt.add("paths")
            continue
        for hi, (h, hout) in enumerate(zip(scn["histories"], out.get("histories", []))):
            ov = judge_history(v, scn, h, hout)
            v.count("histories")
            v.count("ops", len(hout["ops"]))
            v.stats["max_dtor_ms"] = max(v.stats.get("max_dtor_ms", 0), hout.get("dtor_ms", 0))
            if ov:
                nt.add(core.scn_hash(h))
        if not out.get("done") and not ck:
            v.bad("batch-incomplete", scn["kind"], "driver stopped after %d of %d histories\n%s" % (len(out.get("histories", [])), len(scn["histories"]), r["err"][-1500:]))
    touts = v.stats.pop("_timeouts", [])
    if len(touts) > 3:
        v.bad("connection-not-closed", "", "%d clients never saw their connection closed; first: %s" % (len(touts), touts[0]))
    v.nontrivial = len(nt) >= 2
    v.sig = "batch" + str(len(case.scns))
    v.stats["_distinct"] = len(nt)
    return v


def coverage_extra(cases_, verdicts, tier):
    return {"evaluations": sum(v.stats.get("histories", 0) + v.stats.get("path_lengths", 0) for v in verdicts),
            "distinct_nontrivial": sum(v.stats.get("_distinct", 0) for v in verdicts)}


def sample(case, v):
    s = case.scns[0]
    if s["mode"] == "paths":
        return {"paths": s["lengths"]}
    return {"kind": s["kind"], "history0": s["histories"][0], "observed": {k: val for k, val in v.stats.items() if not k.startswith("_")}}
