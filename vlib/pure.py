"""Run pure-function queries through `vsim.<flavor> q`; a crashing query is isolated and the batch resumed."""
import json
import multiprocessing as mp
import os
import re
import shutil
import subprocess
import time

from vlib import core

ENV = {"ASAN_OPTIONS": "abort_on_error=1:detect_leaks=0:halt_on_error=1:handle_abort=1:allocator_may_return_null=1",
       "UBSAN_OPTIONS": "print_stacktrace=1:halt_on_error=1"}


def _shard(args):
    binpath, infile, outdir, start, end = args
    answers = {}
    crashes = {}
    cur = start
    env = dict(os.environ)
    env.update(ENV)
    while cur < end:
        p = subprocess.run([binpath, "q", infile, outdir, str(cur), str(end)], env=env, stdout=subprocess.DEVNULL,
                           stderr=subprocess.PIPE, text=True, errors="replace")
        outp = os.path.join(outdir, "q.%d.jsonl" % cur)
        if os.path.exists(outp):
            for line in open(outp, errors="replace"):
                try:
                    a = json.loads(line)
                    answers[a["i"]] = a
                except ValueError:
                    pass
            os.unlink(outp)
        if p.returncode == 0:
            break
        qs = re.findall(r"@@QUERY (\d+)", p.stderr)
        bad = int(qs[-1]) if qs else cur
        pos = p.stderr.rfind("@@QUERY %d" % bad)
        crashes[bad] = {"rc": p.returncode, "stderr": p.stderr[pos:][-6000:]}
        cur = bad + 1
    return answers, crashes


def run_queries(queries, flavor="asan", jobs=None):
    """-> list of (answer dict | None, crash dict | None)"""
    import build as vbuild
    bdir = vbuild.build(flavor, quiet=True)
    binpath = os.path.join(bdir, "vsim." + flavor)
    work = "/dev/shm/vq.%d.%d" % (os.getpid(), int(time.time() * 1000) % 100000)
    os.makedirs(work, exist_ok=True)
    infile = os.path.join(work, "in.jsonl")
    with open(infile, "w") as f:
        for q in queries:
            f.write(json.dumps(q, separators=(",", ":")) + "\n")
    n = len(queries)
    jobs = jobs or core.NPROC
    ns = max(1, min(jobs, (n + 199) // 200))
    per = (n + ns - 1) // ns
    shards = [(binpath, infile, work, i * per, min(n, (i + 1) * per)) for i in range(ns) if i * per < n]
    if len(shards) == 1:
        rs = [_shard(shards[0])]
    else:
        with mp.Pool(len(shards)) as pool:
            rs = pool.map(_shard, shards)
    answers, crashes = {}, {}
    for a, c in rs:
        answers.update(a)
        crashes.update(c)
    shutil.rmtree(work, ignore_errors=True)
    return [(answers.get(i), crashes.get(i)) for i in range(n)]


def crash_key(crash):
    """(rule, disc, detail) from a crashed query's stderr"""
    r = core.Result({}, [], {"exit": crash["rc"], "signal": 0}, crash["stderr"])
    return core.classify_crash(r) or ("crash", "rc=%s" % crash["rc"], crash["stderr"][-2000:])
