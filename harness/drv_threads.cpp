// Threaded drivers (run under ThreadSanitizer, one process per run):
//   vsim log   <scenario.json> <out.json>     C20 async logger
//   vsim stats <scenario.json> <out.json>     C19 stats service
//   vsim watch <scenario.json> <out.json>     C14 drop-in directory watcher
// Every driver records its history at the client boundary with one global sequence counter.
#include <dirent.h>
#include <errno.h>
#include <fcntl.h>
#include <poll.h>
#include <signal.h>
#include <string.h>
#include <sys/ioctl.h>
#include <sys/resource.h>
#include <sys/socket.h>
#include <sys/stat.h>
#include <sys/syscall.h>
#include <sys/un.h>
#include <unistd.h>

#include <atomic>
#include <condition_variable>
#include <fstream>
#include <iostream>
#include <random>
#include <sstream>
#include <thread>

#include "oomd/Log.h"
#include "oomd/Stats.h"
#include "oomd/StatsClient.h"
#include "oomd/config/ConfigCompiler.h"
#include "oomd/config/JsonConfigParser.h"
#include "oomd/dropin/FsDropInService.h"
#include "oomd/engine/Engine.h"
#include "vh.h"

namespace vh {

static std::atomic<uint64_t> g_seq{0};
static uint64_t tick_seq() {
  return g_seq.fetch_add(1, std::memory_order_seq_cst);
}

static Json::Value load_json(const char* path) {
  std::ifstream in(path);
  Json::Value v;
  in >> v;
  return v;
}

static void save_json(const char* path, const Json::Value& v) {
  std::ofstream out(path);
  out << jstr(v) << "\n";
}

static void seeded_yield(std::mt19937& rng, int max_us) {
  int r = rng() % 8;
  if (r == 0) {
    std::this_thread::yield();
  } else if (r == 1 && max_us > 0) {
    usleep(rng() % max_us);
  }
}

// ======================================================================== C20: logger
class RecSink : public std::streambuf {
 public:
  struct Rec {
    uint64_t seq;
    size_t len;
    std::string head; // first bytes (line id) or the whole short chunk
    bool intact;
  };
  std::mutex mu;
  std::condition_variable cv;
  std::vector<Rec> recs;
  // gating
  std::atomic<uint64_t>* attempted{nullptr};
  std::atomic<bool>* producers_done{nullptr};
  Json::Value gates; // [{"at_write":k,"until_attempted":n}]
  size_t gate_idx{0};
  uint64_t writes{0};
  int slow_us{0};
  uint64_t gate_blocks{0};

 protected:
  std::streamsize xsputn(const char* s, std::streamsize n) override {
    uint64_t seq = tick_seq();
    // gate: block this write until producers have attempted enough further lines
    if (gate_idx < gates.size() && writes >= gates[(Json::ArrayIndex)gate_idx]["at_write"].asUInt64()) {
      uint64_t until = gates[(Json::ArrayIndex)gate_idx]["until_attempted"].asUInt64();
      gate_idx++;
      gate_blocks++;
      while (attempted->load() < until && !producers_done->load()) {
        usleep(200);
      }
    }
    if (slow_us) {
      usleep(slow_us);
    }
    writes++;
    Rec r;
    r.seq = seq;
    r.len = (size_t)n;
    r.head.assign(s, std::min<size_t>((size_t)n, 48));
    r.intact = true;
    // payload check: "T<t>-<n>-<len>-" followed by a deterministic pattern and '\n'
    if (n > 0 && s[0] == 'T') {
      int t = 0, k = 0;
      long len = 0;
      int off = 0;
      if (sscanf(s, "T%d-%d-%ld-%n", &t, &k, &len, &off) == 3 && off > 0) {
        if (len != (long)n || s[n - 1] != '\n') {
          r.intact = false;
        } else {
          for (long i = off; i < n - 1; ++i) {
            if (s[i] != (char)('a' + ((t + k + i) % 23))) {
              r.intact = false;
              break;
            }
          }
        }
      }
    }
    std::lock_guard<std::mutex> l(mu);
    recs.push_back(std::move(r));
    return n;
  }
  int overflow(int c) override {
    if (c != EOF) {
      char ch = (char)c;
      xsputn(&ch, 1);
    }
    return c;
  }
};

static std::string make_line(int t, int k, long len) {
  char hdr[64];
  int off = snprintf(hdr, sizeof hdr, "T%d-%d-%ld-", t, k, len);
  std::string s(hdr);
  if ((long)s.size() + 1 > len) {
    len = s.size() + 1;
    off = snprintf(hdr, sizeof hdr, "T%d-%d-%ld-", t, k, len);
    s = hdr;
  }
  s.reserve(len);
  for (long i = off; i < len - 1; ++i) {
    s.push_back((char)('a' + ((t + k + i) % 23)));
  }
  return s; // the LogStream appends the '\n'
}

static int drv_log(int argc, char** argv) {
  if (argc < 2) {
    return 2;
  }
  Json::Value scn = load_json(argv[0]);
  g_yield_ppm = scn.get("mutex_yield_ppm", 0).asUInt();
  signal(SIGPIPE, SIG_DFL);
  std::string kpath = std::string(argv[1]) + ".kmsg";
  int kfd = ::open(kpath.c_str(), O_WRONLY | O_CREAT | O_TRUNC, 0644);
  std::atomic<uint64_t> attempted{0};
  std::atomic<bool> producers_done{false};
  RecSink sink;
  sink.attempted = &attempted;
  sink.producers_done = &producers_done;
  sink.gates = scn["gates"];
  sink.slow_us = scn.get("slow_us", 0).asInt();
  std::ostream os(&sink);
  Json::Value out;
  Json::Value prod(Json::arrayValue);
  std::mutex prod_mu;
  uint64_t dtor_start = 0, dtor_end = 0;
  {
    auto log = Oomd::Log::get_for_unittest(kfd, os, /*inline=*/false);
    int nthreads = scn["threads"].size();
    std::vector<std::thread> ths;
    for (int t = 0; t < nthreads; ++t) {
      ths.emplace_back([&, t] {
        const Json::Value& plan = scn["threads"][t];
        std::mt19937 rng(scn.get("seed", 1).asUInt() * 977 + t);
        Json::Value mine(Json::arrayValue);
        int k = 0;
        for (const auto& step : plan) {
          std::string op = step["op"].asString();
          if (op == "log") {
            long len = step["len"].asInt64();
            std::string line = make_line(t, k, len + 0);
            // the final length includes the '\n' the stream appends
            line = make_line(t, k, (long)line.size() + 1);
            uint64_t c = tick_seq();
            attempted.fetch_add(1);
            { Oomd::LogStream(*log) << line; }
            uint64_t r = tick_seq();
            Json::Value rec;
            rec["t"] = t;
            rec["k"] = k;
            rec["len"] = (Json::UInt64)(line.size() + 1);
            rec["call"] = (Json::UInt64)c;
            rec["ret"] = (Json::UInt64)r;
            rec["silenced"] = step.get("expect_silenced", false);
            mine.append(rec);
            k++;
          } else if (op == "disable") {
            Oomd::LogStream(*log) << Oomd::LogStream::Control::DISABLE;
          } else if (op == "enable") {
            Oomd::LogStream(*log) << Oomd::LogStream::Control::ENABLE;
          } else if (op == "kmsg") {
            log->kmsgLog("kill-record-T" + std::to_string(t) + "-" + std::to_string(step["n"].asInt()), "oomd kill");
          } else if (op == "sleep_us") {
            usleep(step["us"].asInt());
          }
          seeded_yield(rng, scn.get("yield_us", 50).asInt());
        }
        std::lock_guard<std::mutex> l(prod_mu);
        for (const auto& r : mine) {
          prod.append(r);
        }
      });
    }
    for (auto& th : ths) {
      th.join();
    }
    producers_done = true;
    dtor_start = tick_seq();
    log.reset(); // ~Log: must flush everything accepted
    dtor_end = tick_seq();
  }
  Json::Value sk(Json::arrayValue);
  for (const auto& r : sink.recs) {
    Json::Value e;
    e["seq"] = (Json::UInt64)r.seq;
    e["len"] = (Json::UInt64)r.len;
    e["head"] = r.head;
    e["intact"] = r.intact;
    sk.append(e);
  }
  out["producers"] = prod;
  out["sink"] = sk;
  out["dtor_start"] = (Json::UInt64)dtor_start;
  out["dtor_end"] = (Json::UInt64)dtor_end;
  out["gate_blocks"] = (Json::UInt64)sink.gate_blocks;
  out["kmsg"] = read_file(kpath);
  ::unlink(kpath.c_str());
  save_json(argv[1], out);
  return 0;
}
VH_DRIVER(log, drv_log);

// ======================================================================== C19: stats
static int raw_connect(const std::string& path) {
  int fd = ::socket(AF_UNIX, SOCK_STREAM, 0);
  if (fd < 0) {
    return -1;
  }
  sockaddr_un a;
  memset(&a, 0, sizeof a);
  a.sun_family = AF_UNIX;
  strncpy(a.sun_path, path.c_str(), sizeof(a.sun_path) - 1);
  if (::connect(fd, (sockaddr*)&a, sizeof a) < 0) {
    ::close(fd);
    return -1;
  }
  return fd;
}

static std::string read_all(int fd, int timeout_ms) {
  std::string out;
  char buf[4096];
  while (true) {
    pollfd p{fd, POLLIN, 0};
    int r = ::poll(&p, 1, timeout_ms);
    if (r <= 0) {
      out += "<TIMEOUT>";
      break;
    }
    ssize_t n = ::read(fd, buf, sizeof buf);
    if (n <= 0) {
      break;
    }
    out.append(buf, n);
  }
  return out;
}

static Json::Value map_json(const std::unordered_map<std::string, int>& m) {
  Json::Value o(Json::objectValue);
  for (const auto& kv : m) {
    o[kv.first] = kv.second;
  }
  return o;
}

static int drv_stats(int argc, char** argv) {
  if (argc < 2) {
    return 2;
  }
  Json::Value scn = load_json(argv[0]);
  g_yield_ppm = scn.get("mutex_yield_ppm", 0).asUInt();
  // SIGPIPE keeps its default disposition, exactly as in the oomd daemon
  signal(SIGPIPE, SIG_DFL);
  std::string dir = "/dev/shm/vst." + std::to_string(getpid());
  mkdirs(dir);
  Json::Value out;
  Json::Value hist_out(Json::arrayValue);
  std::string mode = scn["mode"].asString();
  if (mode == "paths") {
    // socket path lengths around sizeof(sun_path)
    Json::Value res(Json::arrayValue);
    for (const auto& L : scn["lengths"]) {
      size_t len = L.asUInt();
      std::string p = dir + "/";
      while (p.size() < len) {
        p.push_back('s');
      }
      Json::Value r;
      r["len"] = (Json::UInt64)p.size();
      try {
        auto st = Oomd::Stats::get_for_unittest(p);
        r["init"] = "ok";
        st->increment("k", 1);
        r["value"] = map_json(st->getAll());
      } catch (const std::exception& e) {
        r["init"] = "failed";
        r["what"] = e.what();
      }
      res.append(r);
    }
    out["paths"] = res;
    out["sun_path_size"] = (Json::UInt64)sizeof(((sockaddr_un*)nullptr)->sun_path);
    rmtree(dir);
    save_json(argv[1], out);
    return 0;
  }
  int hi = 0;
  for (const auto& hist : scn["histories"]) {
    std::string sock = dir + "/s" + std::to_string(hi++) + ".sock";
    Json::Value hrec;
    Json::Value ops_out(Json::arrayValue);
    std::mutex omu;
    uint64_t dtor_start = 0, dtor_end = 0;
    {
      auto st = Oomd::Stats::get_for_unittest(sock);
      for (const auto& kv : hist.get("init", Json::Value(Json::objectValue)).getMemberNames()) {
        st->set(kv, hist["init"][kv].asInt());
      }
      // many counters: the `g` reply is far larger than the socket buffer, so the server has to send it in pieces
      int bulk = hist.get("bulk_keys", 0).asInt();
      for (int i = 0; i < bulk; ++i) {
        char kb[32];
        snprintf(kb, sizeof kb, "bulk.%06d", i);
        st->set(kb, i % 7);
      }
      std::vector<std::thread> ths;
      int nth = hist["threads"].size();
      std::atomic<int> ready{0};
      for (int t = 0; t < nth; ++t) {
        ths.emplace_back([&, t] {
          std::mt19937 rng(scn.get("seed", 1).asUInt() * 131 + t + hi * 17);
          ready++;
          while (ready.load() < nth) {
            std::this_thread::yield();
          }
          Json::Value mine(Json::arrayValue);
          for (const auto& op : hist["threads"][t]) {
            seeded_yield(rng, scn.get("yield_us", 30).asInt());
            std::string o = op["op"].asString();
            Json::Value rec = op;
            rec["th"] = t;
            uint64_t c = tick_seq();
            if (o == "inc") {
              st->increment(op["k"].asString(), op["v"].asInt());
            } else if (o == "set") {
              st->set(op["k"].asString(), op["v"].asInt());
            } else if (o == "reset") {
              st->reset();
            } else if (o == "get") {
              rec["res"] = map_json(st->getAll());
            } else if (o == "cget") {
              Oomd::StatsClient cl(sock);
              auto m = cl.getStats();
              rec["res"] = m ? map_json(*m) : Json::Value();
            } else if (o == "creset") {
              Oomd::StatsClient cl(sock);
              rec["res"] = cl.resetStats();
            } else if (o == "sleep_us") {
              usleep(op["us"].asInt());
            } else if (o == "fdflood") {
              // run the process (service and clients share it) out of file descriptors with idle connections, let the service's
              // accept() fail for a while, then give the descriptors back
              struct rlimit old_lim;
              getrlimit(RLIMIT_NOFILE, &old_lim);
              int open_now = 0;
              if (DIR* d = opendir("/proc/self/fd")) {
                while (::readdir(d)) {
                  ++open_now;
                }
                closedir(d);
              }
              struct rlimit low = old_lim;
              low.rlim_cur = open_now + 6;
              setrlimit(RLIMIT_NOFILE, &low);
              std::vector<int> idle;
              for (int i = 0; i < 64; ++i) {
                int fd = raw_connect(sock);
                if (fd < 0) {
                  break;
                }
                idle.push_back(fd);
              }
              usleep(op.get("hold_us", 300000).asInt());
              rec["idle_connections"] = (Json::UInt64)idle.size();
              for (int fd : idle) {
                ::close(fd);
              }
              setrlimit(RLIMIT_NOFILE, &old_lim);
              usleep(2300000); // connections that were accepted but never spoke are dropped by the 2 s timeout
            } else if (o == "raw") {
              // raw protocol client: send bytes, optional behaviours
              int fd = raw_connect(sock);
              rec["connected"] = fd >= 0;
              if (fd >= 0) {
                std::string bytes;
                for (const auto& b : op["bytes"]) {
                  bytes.push_back((char)b.asInt());
                }
                std::string beh = op.get("behave", "normal").asString();
                if (beh == "rst") {
                  linger lg{1, 0};
                  setsockopt(fd, SOL_SOCKET, SO_LINGER, &lg, sizeof lg);
                }
                if (!bytes.empty()) {
                  ssize_t w = ::send(fd, bytes.data(), bytes.size(), MSG_NOSIGNAL);
                  rec["sent"] = (Json::Int64)w;
                }
                if (beh == "halfclose") {
                  ::shutdown(fd, SHUT_WR);
                }
                if (beh == "close_early" || beh == "rst") {
                  ::close(fd);
                  rec["reply"] = Json::Value();
                } else if (beh == "slow") {
                  // a live but slow reader: fixed-size reads with pauses well below the server's send timeout
                  std::string rep;
                  size_t chunk = op.get("chunk", 65536).asUInt();
                  int pause_ms = op.get("pause_ms", 20).asInt();
                  int pauses = op.get("pauses", 1000000).asInt();
                  std::vector<char> cb(chunk);
                  bool timeout = false;
                  long max_gap_ms = 0;
                  auto last_read = std::chrono::steady_clock::now();
                  while (true) {
                    pollfd pp{fd, POLLIN, 0};
                    if (::poll(&pp, 1, 20000) <= 0) {
                      timeout = true;
                      break;
                    }
                    auto nowr = std::chrono::steady_clock::now();
                    long gap = std::chrono::duration_cast<std::chrono::milliseconds>(nowr - last_read).count();
                    max_gap_ms = std::max(max_gap_ms, gap);
                    last_read = nowr;
                    ssize_t n = ::read(fd, cb.data(), cb.size());
                    if (n <= 0) {
                      break;
                    }
                    rep.append(cb.data(), n);
                    if (pauses-- > 0) {
                      usleep(pause_ms * 1000);
                    }
                  }
                  ::close(fd);
                  // the reply is too big to carry along: judge its shape here, report the verdict data
                  Json::Value parsed;
                  Json::CharReaderBuilder rb;
                  std::string errs;
                  std::istringstream is(rep);
                  bool ok = Json::parseFromStream(rb, is, &parsed, &errs);
                  Json::Value b;
                  b["len"] = (Json::UInt64)rep.size();
                  b["timeout"] = timeout;
                  b["max_gap_ms"] = (Json::Int64)max_gap_ms;
                  b["json"] = ok;
                  if (ok && parsed.isObject()) {
                    b["error"] = parsed["error"];
                    const Json::Value& body = parsed["body"];
                    b["body_is_object"] = body.isObject();
                    int nb = 0, bad = 0;
                    if (body.isObject()) {
                      for (const auto& k : body.getMemberNames()) {
                        if (k.rfind("bulk.", 0) == 0) {
                          nb++;
                          int idx = atoi(k.c_str() + 5);
                          if (!body[k].isInt() || body[k].asInt() != idx % 7) {
                            bad++;
                          }
                        }
                      }
                      b["other_keys"] = (Json::UInt64)(body.size() - nb);
                      // the few non-bulk counters are carried along: they take part in the linearizability check
                      Json::Value other(Json::objectValue);
                      for (const auto& k : body.getMemberNames()) {
                        if (k.rfind("bulk.", 0) != 0 && other.size() < 16) {
                          other[k] = body[k];
                        }
                      }
                      b["other"] = other;
                    }
                    b["bulk_keys"] = nb;
                    b["bulk_bad"] = bad;
                  } else {
                    b["tail"] = rep.substr(rep.size() > 80 ? rep.size() - 80 : 0);
                  }
                  rec["bulk"] = b;
                  rec["reply"] = Json::Value();
                } else if (beh == "stall") {
                  // send nothing more and do not read for longer than the server's 2 s timeout
                  usleep(op.get("stall_ms", 2300).asInt() * 1000);
                  rec["reply"] = read_all(fd, 500);
                  ::close(fd);
                } else {
                  rec["reply"] = read_all(fd, 20000);
                  ::close(fd);
                }
              }
            }
            uint64_t r = tick_seq();
            rec["call"] = (Json::UInt64)c;
            rec["ret"] = (Json::UInt64)r;
            mine.append(rec);
          }
          std::lock_guard<std::mutex> l(omu);
          for (const auto& r : mine) {
            ops_out.append(r);
          }
        });
      }
      for (auto& th : ths) {
        th.join();
      }
      hrec["final"] = map_json(st->getAll());
      // optional clients left in odd states while the service shuts down
      std::vector<int> dangling;
      std::vector<std::thread> drippers;
      std::atomic<bool> drip_stop{false};
      for (const auto& d : hist.get("dangling", Json::Value(Json::arrayValue))) {
        int fd = raw_connect(sock);
        if (fd >= 0) {
          std::string beh = d.asString();
          if (beh == "silent") {
            // connected, sends nothing
          } else if (beh == "partial") {
            ::send(fd, "g", 1, MSG_NOSIGNAL);
          } else if (beh == "noread") {
            ::send(fd, "g\n", 2, MSG_NOSIGNAL);
          } else if (beh == "drip") {
            // a request that arrives one byte at a time, each well inside the per-read timeout, and never ends
            ::send(fd, "g", 1, MSG_NOSIGNAL);
            drippers.emplace_back([fd, &drip_stop] {
              for (int i = 0; i < 25 && !drip_stop.load(); ++i) {
                for (int k = 0; k < 12 && !drip_stop.load(); ++k) {
                  usleep(100000);
                }
                if (::send(fd, "x", 1, MSG_NOSIGNAL) <= 0) {
                  break;
                }
              }
            });
          }
          dangling.push_back(fd);
        }
      }
      hrec["dangling"] = (Json::UInt64)dangling.size();
      dtor_start = tick_seq();
      auto t0 = std::chrono::steady_clock::now();
      st.reset(); // ~Stats must complete
      hrec["dtor_ms"] = (Json::Int64)std::chrono::duration_cast<std::chrono::milliseconds>(std::chrono::steady_clock::now() - t0).count();
      dtor_end = tick_seq();
      drip_stop = true;
      for (auto& t : drippers) {
        t.join();
      }
      for (int fd : dangling) {
        ::close(fd);
      }
    }
    hrec["ops"] = ops_out;
    hrec["dtor_start"] = (Json::UInt64)dtor_start;
    hrec["dtor_end"] = (Json::UInt64)dtor_end;
    hist_out.append(hrec);
    // checkpoint after every history: a crash later must not hide what was observed
    out["histories"] = hist_out;
    save_json(argv[1], out);
  }
  rmtree(dir);
  out["histories"] = hist_out;
  out["done"] = true;
  save_json(argv[1], out);
  return 0;
}
VH_DRIVER(stats, drv_stats);

// ======================================================================== C14: watcher
static bool thread_blocked_in(pid_t tid, long sysno) {
  char p[64], buf[256];
  snprintf(p, sizeof p, "/proc/self/task/%d/syscall", tid);
  int fd = ::open(p, O_RDONLY);
  if (fd < 0) {
    return false;
  }
  ssize_t n = ::read(fd, buf, sizeof buf - 1);
  ::close(fd);
  if (n <= 0) {
    return false;
  }
  buf[n] = 0;
  return atol(buf) == sysno;
}

static std::vector<pid_t> other_tids() {
  std::vector<pid_t> out;
  pid_t self = syscall(SYS_gettid);
  DIR* d = opendir("/proc/self/task");
  if (!d) {
    return out;
  }
  while (auto* de = ::readdir(d)) {
    pid_t t = atoi(de->d_name);
    if (t > 0 && t != self) {
      out.push_back(t);
    }
  }
  closedir(d);
  return out;
}

// bytes pending on every inotify fd of this process (the service keeps its fd private)
static long inotify_pending() {
  long total = 0;
  DIR* d = opendir("/proc/self/fd");
  if (!d) {
    return 0;
  }
  while (auto* de = ::readdir(d)) {
    int fd = atoi(de->d_name);
    if (fd <= 2) {
      continue;
    }
    char lnk[64], buf[128];
    snprintf(lnk, sizeof lnk, "/proc/self/fd/%d", fd);
    ssize_t n = ::readlink(lnk, buf, sizeof buf - 1);
    if (n > 0) {
      buf[n] = 0;
      if (strstr(buf, "inotify")) {
        int avail = 0;
        if (ioctl(fd, FIONREAD, &avail) == 0) {
          total += avail;
        }
      }
    }
  }
  closedir(d);
  return total;
}

static Json::Value run_tick(Oomd::FsDropInService* svc, Oomd::Engine::Engine& engine, Oomd::OomdContext& ctx) {
  size_t ev0;
  {
    std::lock_guard<std::mutex> l(g.mu);
    ev0 = g.buf.size();
  }
  if (svc) {
    svc->updateDropIns();
  }
  engine.prerun(ctx);
  engine.runOnce(ctx);
  std::lock_guard<std::mutex> l(g.mu);
  std::string evs = g.buf.substr(ev0);
  g.buf.erase(ev0);
  Json::Value arr(Json::arrayValue);
  std::istringstream is(evs);
  std::string line;
  Json::CharReaderBuilder rb;
  while (std::getline(is, line)) {
    Json::Value e;
    std::string errs;
    std::istringstream ls(line);
    if (Json::parseFromStream(rb, ls, &e, &errs) && e["ev"].asString() == "plugin" && e["m"].asString() == "run") {
      arr.append(e["id"].asString());
    }
  }
  return arr;
}

static int drv_watch(int argc, char** argv) {
  if (argc < 2) {
    return 2;
  }
  Json::Value scn = load_json(argv[0]);
  g_yield_ppm = scn.get("mutex_yield_ppm", 0).asUInt();
  std::string dir = "/dev/shm/vwt." + std::to_string(getpid());
  rmtree(dir);
  std::string dd = dir + "/dropins";
  mkdirs(dd);
  for (const auto& f : scn["initial"].getMemberNames()) {
    write_file(dd + "/" + f, scn["initial"][f].asString());
  }
  Json::Value out;
  // scripted plugins record their calls through vh::ev() (mutex protected); the interposers stay passive
  Oomd::Config2::JsonConfigParser parser;
  auto base = parser.parse(jstr(scn["base"]));
  Oomd::PluginConstructionContext cc(dir);
  auto engine = Oomd::Config2::compile(*base, cc);
  if (!engine) {
    out["err"] = "base does not compile";
    save_json(argv[1], out);
    return 2;
  }
  Oomd::OomdContext ctx;
  std::atomic<bool> stop{false};
  std::atomic<uint64_t> ticks_done{0};
  Json::Value tick_log(Json::arrayValue);
  std::mutex tl_mu;
  uint64_t nsig = 0;
  {
    if (scn.get("missing_at_start", false).asBool()) {
      rmtree(dd); // the drop-in directory does not exist yet when the service starts; a later "mkdir" op creates it
    }
    auto svc = Oomd::FsDropInService::create(dir, *base, *engine, scn.get("trailing_slash", false).asBool() ? dd + "/" : dd);
    if (!svc) {
      out["err"] = "service create failed";
      save_json(argv[1], out);
      return 2;
    }
    // start-up: files present at start must be active after the first tick, in name order
    out["startup_tick"] = run_tick(svc.get(), *engine, ctx);
    std::thread ticker([&] {
      std::mt19937 rng(scn.get("seed", 1).asUInt() * 7 + 1);
      while (!stop.load()) {
        Json::Value t = run_tick(svc.get(), *engine, ctx);
        {
          std::lock_guard<std::mutex> l(tl_mu);
          Json::Value e;
          e["seq"] = (Json::UInt64)tick_seq();
          e["ids"] = t;
          if (tick_log.size() < 400) {
            tick_log.append(e);
          }
        }
        ticks_done++;
        if (scn.isMember("tick_us")) {
          usleep(scn["tick_us"].asInt()); // a main loop that comes round slowly: many changes pile up between two ticks
        }
        seeded_yield(rng, scn.get("yield_us", 200).asInt());
      }
    });
    std::thread fileops([&] {
      std::mt19937 rng(scn.get("seed", 1).asUInt() * 7 + 2);
      for (const auto& op : scn["ops"]) {
        std::string o = op["op"].asString();
        std::string f = dd + "/" + op.get("file", "").asString();
        if (o == "write") {
          write_file(f, op["text"].asString());
        } else if (o == "write_keepopen") {
          // a writer that rewrites the file in place and keeps its descriptor (an agent holding the file open): there is
          // no close event to wait for; the descriptor stays open until the process ends
          int fd = ::open(f.c_str(), O_WRONLY | O_CREAT | O_TRUNC, 0644);
          std::string text = op["text"].asString();
          (void)!::syscall(SYS_write, fd, text.data(), text.size());
          static std::vector<int> kept;
          kept.push_back(fd);
        } else if (o == "truncate") {
          (void)!::truncate(f.c_str(), 0);
        } else if (o == "write_chunks") {
          // the file holds partial JSON between the chunks
          std::string text = op["text"].asString();
          int fd = ::open(f.c_str(), O_WRONLY | O_CREAT | O_TRUNC, 0644);
          size_t n = std::max<size_t>(1, op.get("chunks", 3).asUInt());
          size_t per = (text.size() + n - 1) / n;
          for (size_t off = 0; off < text.size(); off += per) {
            std::string part = text.substr(off, per);
            (void)!::syscall(SYS_write, fd, part.data(), part.size());
            seeded_yield(rng, 300);
          }
          ::close(fd);
        } else if (o == "rename_in") {
          std::string tmp = dir + "/tmp." + std::to_string(rng());
          write_file(tmp, op["text"].asString());
          ::rename(tmp.c_str(), f.c_str());
        } else if (o == "link_in") {
          // published with link(2) (ln, or O_TMPFILE + linkat): the name appears complete, without a write or rename event
          std::string tmp = dir + "/lnk." + std::to_string(rng());
          write_file(tmp, op["text"].asString());
          ::unlink(f.c_str());
          (void)!::link(tmp.c_str(), f.c_str());
          ::unlink(tmp.c_str());
        } else if (o == "rename_out") {
          std::string tmp = dir + "/out." + std::to_string(rng());
          ::rename(f.c_str(), tmp.c_str());
        } else if (o == "rename") {
          std::string f2 = dd + "/" + op["to"].asString();
          ::rename(f.c_str(), f2.c_str());
        } else if (o == "delete") {
          ::unlink(f.c_str());
        } else if (o == "rmdir_mkdir") {
          rmtree(dd);
          seeded_yield(rng, 500);
          usleep(op.get("gap_us", 0).asInt());
          mkdirs(dd);
        } else if (o == "mkdir") {
          mkdirs(dd);
        } else if (o == "mvdir_mkdir") {
          // the watched directory itself is renamed away (IN_MOVE_SELF) and a new, empty one takes its name
          std::string old = dir + "/old." + std::to_string(rng());
          ::rename(dd.c_str(), old.c_str());
          seeded_yield(rng, 500);
          usleep(op.get("gap_us", 0).asInt());
          mkdirs(dd);
        } else if (o == "wait_ticks") {
          uint64_t t0 = ticks_done.load();
          while (ticks_done.load() < t0 + op["n"].asUInt64()) {
            usleep(100);
          }
        }
        tick_seq();
        seeded_yield(rng, scn.get("yield_us", 200).asInt());
      }
    });
    fileops.join();
    // ---- logical quiescence: watcher blocked in epoll_wait, no pending inotify bytes, dir watch re-armed
    bool quiet = false;
    uint64_t waited_ms = 0;
    int64_t idle_since = -1; // tick count at which the watcher was first seen idle with nothing pending
    for (; waited_ms < 20000; waited_ms += 5) {
      usleep(5000);
      bool idle = false;
      for (pid_t t : other_tids()) {
        if (thread_blocked_in(t, SYS_epoll_wait)) {
          idle = true;
        }
      }
      if (!idle || inotify_pending() != 0) {
        idle_since = -1;
        continue;
      }
      if (idle_since < 0) {
        idle_since = (int64_t)ticks_done.load();
      } else if ((int64_t)ticks_done.load() >= idle_since + 2) {
        // two more full ticks passed while the watcher stayed idle at every sample
        quiet = true;
        break;
      }
    }
    out["quiescent"] = quiet;
    out["quiescence_wait_ms"] = (Json::UInt64)waited_ms;
    stop = true;
    ticker.join();
    // the watcher may still have been handling the last event when we sampled it: three more ticks, then judge
    Json::Value finals(Json::arrayValue);
    for (int i = 0; i < 3; ++i) {
      usleep(20000);
      finals.append(run_tick(svc.get(), *engine, ctx));
    }
    out["final_ticks"] = finals;
    out["ticks_done"] = (Json::UInt64)ticks_done.load();
    // files present now
    Json::Value present(Json::objectValue);
    if (DIR* d = opendir(dd.c_str())) {
      while (auto* de = ::readdir(d)) {
        std::string n = de->d_name;
        if (n == "." || n == "..") {
          continue;
        }
        present[n] = read_file(dd + "/" + n);
      }
      closedir(d);
    }
    out["present"] = present;
    nsig = tick_seq();
  } // ~FsDropInService joins the watcher thread
  out["tick_log"] = tick_log;
  out["events"] = (Json::UInt64)nsig;
  out["done"] = true;
  rmtree(dir);
  save_json(argv[1], out);
  return 0;
}
VH_DRIVER(watch, drv_watch);

} // namespace vh
