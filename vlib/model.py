"""Python-side model of the simulated world: mirrors harness/util.cpp apply_ops so oracles know
what existed at every tick."""
import copy


class World:
    def __init__(self, scn):
        self.cg = {}  # rel -> {"files":{}, "xattrs":{}, "gen": n}
        self.gen = 0
        for rel, spec in scn.get("cgroups", {}).items():
            self._mk(self._n(rel), spec)
        self.proc = dict(scn.get("proc", {}))

    @staticmethod
    def _n(rel):
        return "" if rel in ("/", ".") else rel.strip("/")

    def _mk(self, rel, spec):
        # creating a/b/c creates missing ancestors as bare directories
        parts = rel.split("/") if rel else []
        for i in range(len(parts)):
            anc = "/".join(parts[:i])
            if anc not in self.cg:
                self.gen += 1
                self.cg[anc] = {"files": {}, "xattrs": {}, "gen": self.gen}
        if rel not in self.cg:
            self.gen += 1
            self.cg[rel] = {"files": {}, "xattrs": {}, "gen": self.gen}
        c = self.cg[rel]
        for k, v in spec.get("files", {}).items():
            if v is None:
                c["files"].pop(k, None)
            else:
                c["files"][k] = v
        for k, v in spec.get("xattrs", {}).items():
            if v is None:
                c["xattrs"].pop(k, None)
            else:
                c["xattrs"][k] = v

    def apply(self, ops):
        for op in ops or []:
            o = op["op"]
            if o == "write":
                if "proc" in op:
                    if op["text"] is None:
                        self.proc.pop(op["proc"], None)
                    else:
                        self.proc[op["proc"]] = op["text"]
                else:
                    rel = self._n(op["cg"])
                    if rel in self.cg:
                        if op["text"] is None:
                            self.cg[rel]["files"].pop(op["file"], None)
                        else:
                            self.cg[rel]["files"][op["file"]] = op["text"]
            elif o == "rm":
                rel = self._n(op["cg"])
                for k in [k for k in self.cg if k == rel or k.startswith(rel + "/")]:
                    del self.cg[k]
            elif o == "mk":
                self._mk(self._n(op["cg"]), op)
            elif o == "xattr":
                rel = self._n(op["cg"])
                if rel in self.cg:
                    if op["val"] is None:
                        self.cg[rel]["xattrs"].pop(op["name"], None)
                    else:
                        self.cg[rel]["xattrs"][op["name"]] = op["val"]

    def dirs(self):
        return set(self.cg.keys())

    def children(self, rel):
        pre = rel + "/" if rel else ""
        return sorted(k for k in self.cg if k and k.startswith(pre) and "/" not in k[len(pre):] and k != rel)

    def subtree(self, rel):
        return sorted(k for k in self.cg if k == rel or k.startswith(rel + "/") or rel == "")

    def pids(self, rel):
        t = self.cg.get(rel, {}).get("files", {}).get("cgroup.procs", "")
        out = []
        for line in t.split("\n"):
            line = line.strip()
            if line:
                try:
                    out.append(int(line))
                except ValueError:
                    pass
        return out

    def snapshot(self):
        return copy.deepcopy(self)


def worlds_per_tick(scn):
    """-> list of World snapshots, one per tick, as the world looks at the start of that tick's body."""
    w = World(scn)
    out = []
    for t in scn["ticks"]:
        w.apply(t.get("ops"))
        out.append(w.snapshot())
    return out


def apply_kills(w, pids):
    """mirror of the harness: successfully signalled pids leave cgroup.procs; cgroup.events of the touched
    cgroups and their ancestors is recomputed from the pids still listed in the subtree"""
    pids = set(pids)
    dirty = set()
    for rel, c in w.cg.items():
        t = c["files"].get("cgroup.procs")
        if t is None:
            continue
        keep, changed = [], False
        for line in t.split("\n"):
            if not line:
                continue
            try:
                v = int(line)
            except ValueError:
                keep.append(line)
                continue
            if v in pids:
                changed = True
            else:
                keep.append(line)
        if changed:
            c["files"]["cgroup.procs"] = "".join(k + "\n" for k in keep)
            dirty.add(rel)
    todo = set()
    for rel in dirty:
        while True:
            todo.add(rel)
            if rel == "":
                break
            rel = rel.rsplit("/", 1)[0] if "/" in rel else ""
    for rel in todo:
        if rel not in w.cg or "cgroup.events" not in w.cg[rel]["files"]:
            continue
        pop = any(any(ch.isdigit() for ch in w.cg[s]["files"].get("cgroup.procs", "")) for s in w.subtree(rel))
        w.cg[rel]["files"]["cgroup.events"] = "populated %d\nfrozen 0\n" % int(pop)
