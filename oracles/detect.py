"""Reference predicates of the core detectors over a whole sample history (C08).
Each predictor returns, per tick, True (must CONTINUE), False (must STOP) or None (don't-care)."""
from fractions import Fraction as F

from oracles import cgroup as CG
from oracles import kill as K
from oracles import path as P

NS = 10**9


def pats_of(args):
    return args.get("cgroup", "").split(",") if args.get("cgroup") else []


def watched_pressure(view, pats, res):
    """-> (pressure tuple or zeros, ambiguous) of the matched cgroup with the highest weighted pressure"""
    best, bestw, second = (0.0, 0.0, 0.0), F(0), None
    amb = False
    for rel in P.resolve_many(pats, view.w.dirs()):
        p = view.psi(rel, res, "full")
        if p is None:
            continue
        w = 3 * F(p[0]) + 2 * F(p[1]) + F(p[2])
        if w > bestw:
            if bestw > 0 and w - bestw < F(1, 1000) and p[:3] != best:
                amb = True
            best, bestw = p[:3], w
        elif bestw - w < F(1, 1000) and w > 0 and p[:3] != best:
            amb = True
    return best, amb


class Armed:
    """'above threshold continuously since a tick at least `duration` seconds ago'"""

    def __init__(self, duration):
        self.d = duration
        self.since = None

    def step(self, exceed, now):
        if not exceed:
            self.since = None
            return False
        if self.since is None:
            self.since = now
        return now - self.since >= self.d * NS


def predict(name, args, views, times):
    n = len(views)
    out = [None] * n
    if name == "pressure_above":
        thr, dur = int(args["threshold"]), int(args["duration"])
        arm = Armed(dur)
        dead = False
        for i, v in enumerate(views):
            p, amb = watched_pressure(v, pats_of(args), args["resource"])
            dead = dead or amb
            r = arm.step(p[0] > thr, times[i])
            out[i] = None if dead else r
        return out
    if name == "pressure_rising_beyond":
        thr, dur = int(args["threshold"]), int(args["duration"])
        ffr = F(args.get("fast_fall_ratio", "0.85"))
        arm = Armed(dur)
        dead = False
        last10 = None
        for i, v in enumerate(views):
            p, amb = watched_pressure(v, pats_of(args), args["resource"])
            dead = dead or amb
            long_ok = arm.step(p[1] > thr, times[i])
            if last10 is None:
                falling = None
            else:
                lim = F(last10) * ffr
                falling = None if abs(F(p[0]) - lim) < F(1, 10**4) else F(p[0]) < lim
            if dead:
                out[i] = None
            elif not long_ok or not (p[0] > thr):
                out[i] = False
            elif falling is None:
                out[i] = None
            else:
                out[i] = not falling
            last10 = p[0]
        return out
    if name == "memory_above":
        anon = "threshold_anon" in args
        mem_total = views[0].meminfo.get("MemTotal", 0)
        thr = K.exact_size_or_percent(args["threshold_anon"] if anon else args["threshold"], mem_total)
        arm = Armed(int(args["duration"]))
        dead = False
        for i, v in enumerate(views):
            usage = 0
            for rel in P.resolve_many(pats_of(args), v.w.dirs()):
                if anon:
                    ms = v.memstat(rel)
                    u = (ms or {}).get("anon", 0)
                else:
                    u = v.current(rel) or 0
                usage = max(usage, u)
            if abs(F(usage) - thr) < 1 and F(usage) != thr:
                dead = True
            r = arm.step(F(usage) > thr, times[i])
            out[i] = None if dead else r
        return out
    if name == "memory_reclaim":
        dur = int(args["duration"])
        tots = []
        for v in views:
            tot = 0
            for rel in P.resolve_many(pats_of(args), v.w.dirs()):
                tot += (v.memstat(rel) or {}).get("pgscan", 0)
            tots.append(tot)

        def variant(first_counts):
            res, grew_at = [], None
            for i, tot in enumerate(tots):
                if (i == 0 and first_counts and tot > 0) or (i > 0 and tot > tots[i - 1]):
                    grew_at = times[i]
                if grew_at is None:
                    res.append(False)
                else:
                    x = times[i] - grew_at
                    res.append(True if x <= dur * NS else False if x >= (dur + 1) * NS else None)
            return res

        # no previous sample exists on the first tick: whether it counts as growth is undefined
        a, b = variant(True), variant(False)
        for i in range(n):
            out[i] = a[i] if (a[i] == b[i] and i > 0) else None
        return out
    if name == "swap_free":
        pct = int(args["threshold_pct"])
        for i, v in enumerate(views):
            free, tot = v.swaptotal - v.swapused, v.swaptotal
            lhs, rhs = F(free), F(tot) * pct / 100
            out[i] = None if abs(lhs - rhs) < 1 and lhs != rhs else lhs < rhs
        return out
    if name == "exists":
        neg = K.parse_bool(args.get("negate"))
        for i, v in enumerate(views):
            ex = bool(P.resolve_many(pats_of(args), v.w.dirs()))
            out[i] = ex != neg
        return out
    if name == "nr_dying_descendants":
        cnt = int(args["count"])
        lte = K.parse_bool(args.get("lte"), True)
        for i, v in enumerate(views):
            r = False
            for rel in P.resolve_many(pats_of(args), v.w.dirs()):
                nr = v.nr_dying(rel)
                if nr is not None and ((lte and nr <= cnt) or (not lte and nr > cnt)):
                    r = True
            out[i] = r
        return out
    raise ValueError(name)
