"""Run the threaded drivers (log / stats / watch) one process per scenario, collect sanitizer reports."""
import json
import multiprocessing as mp
import os
import re
import shutil
import subprocess
import time

from vlib import core

SAN_ENV = {
    "tsan": {"TSAN_OPTIONS": "halt_on_error=0:exitcode=66:second_deadlock_stack=1:history_size=4"},
    "asan": {"ASAN_OPTIONS": "abort_on_error=1:detect_leaks=0:halt_on_error=1:handle_abort=1", "UBSAN_OPTIONS": "print_stacktrace=1:halt_on_error=1"},
}


def _one(args):
    binpath, driver, scn, work, i, flavor, timeout = args
    sp = os.path.join(work, "s%d.json" % i)
    op = os.path.join(work, "o%d.json" % i)
    with open(sp, "w") as f:
        json.dump(scn, f)
    env = dict(os.environ)
    env.update(SAN_ENV[flavor])
    t0 = time.time()
    try:
        p = subprocess.run([binpath, driver, sp, op], env=env, stdout=subprocess.DEVNULL, stderr=subprocess.PIPE, timeout=timeout)
        rc, err, to = p.returncode, p.stderr.decode(errors="replace"), False
    except subprocess.TimeoutExpired as ex:
        rc, err, to = -999, (ex.stderr or b"").decode(errors="replace"), True
    out = None
    if os.path.exists(op):
        try:
            out = json.load(open(op))
        except ValueError:
            out = None
    return {"rc": rc, "timeout": to, "out": out, "err": err[-60000:], "wall": time.time() - t0}


def run(driver, scns, flavor="tsan", timeout=120, jobs=None):
    import build as vbuild
    bdir = vbuild.build(flavor, quiet=True)
    binpath = os.path.join(bdir, "vsim." + flavor)
    work = "/dev/shm/vthr.%d.%d" % (os.getpid(), int(time.time() * 1000) % 100000)
    os.makedirs(work, exist_ok=True)
    jobs_ = [(binpath, driver, s, work, i, flavor, timeout) for i, s in enumerate(scns)]
    with mp.Pool(min(jobs or core.NPROC, max(1, len(jobs_)))) as pool:
        res = pool.map(_one, jobs_, chunksize=1)
    shutil.rmtree(work, ignore_errors=True)
    for d in os.listdir("/dev/shm"):
        if d.startswith(("vst.", "vwt.")):
            p = os.path.join("/dev/shm", d)
            try:
                if time.time() - os.path.getmtime(p) > 600:
                    shutil.rmtree(p, ignore_errors=True)
            except OSError:
                pass
    return res


_TS = re.compile(r"WARNING: ThreadSanitizer: ([^\n(]+)")
_FR = re.compile(r"#\d+ (.+?) (/\S+?):(\d+)")


def tsan_reports(err):
    """-> list of (kind, signature, text) deduplicated by the pair of innermost oomd frames"""
    out, seen = [], set()
    blocks = re.split(r"(?==================\nWARNING: ThreadSanitizer)", err)
    for b in blocks:
        m = _TS.search(b)
        if not m:
            continue
        kind = m.group(1).strip()
        stacks = re.split(r"\n\s*\n", b)
        tops = []
        for st in stacks:
            for fm in _FR.finditer(st):
                fn, path = fm.group(1), fm.group(2)
                if "/src/oomd/" in path or "/verif/harness/" in path:
                    fn = re.sub(r"\(.*", "", fn)
                    tops.append("%s@%s" % (fn.strip(), os.path.basename(path)))
                    break
            if len(tops) >= 2:
                break
        sig = " <-> ".join(sorted(set(tops))) or "?"
        if (kind, sig) not in seen:
            seen.add((kind, sig))
            out.append((kind, sig, b[:4000]))
    return out


def crash_of(r):
    """(rule, disc, detail) if the driver process died abnormally"""
    if r["timeout"]:
        return ("hang", "driver-watchdog", r["err"][-2000:])
    if r["rc"] in (0, 66):
        return None
    res = core.Result({}, [], {"exit": r["rc"] if r["rc"] > 0 else 0, "signal": -r["rc"] if r["rc"] < 0 else 0}, r["err"])
    ck = core.classify_crash(res)
    if ck and ck[0].startswith("signal-") and "Assertion" in r["err"]:
        m = re.search(r"(\S+):(\d+): (.+?): Assertion '(.+?)' failed", r["err"])
        if m:
            return ("ocheck-abort", "%s: %s" % (re.sub(r"\(.*", "", m.group(3)), m.group(4)), r["err"][-3000:])
    return ck or ("exit", str(r["rc"]), r["err"][-2000:])
