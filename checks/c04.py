"""C04 Dry-run has no side effects but the same decision and control flow (dry vs wet differential)."""
import copy
import random
import re

from vlib import core, world as W, model, killgen as KG
from oracles import killtrace as KT

ID = "C04"
LEVEL = "exploration"
FLAVORS = ["asan"]
RULE = ("every scenario (random tree, one of the five kill plugins or systemd_restart, random arguments incl. recursive, kernelkill, "
        "reap_memory, always_continue, ruleset- and plugin-level post_action_delay, 4-6 ticks with irregular steps) is executed twice in "
        "separate processes, wet and with dry=true; the dry trace must contain zero kill(2), setxattr(2), cgroup control-file write(2), "
        "pidfd_open/process_mrelease, sd_bus events and leave oomd.kills / oomd.restarts at 0; its `(dry)` kmsg line must name the wet "
        "run's first attempted victim; the action after the kill plugin runs (or not) identically and the second chain start happens on "
        "the same tick in both runs. non-trivial = the wet run made >=1 kill attempt (or issued a D-Bus call); distinct by scenario hash")
ASSUMPTIONS = ["all kills succeed in the wet run (so wet == 'after a successful kill', the case the property compares with)",
               "no D-Bus in the sandbox: the sd_bus_* entry points are defined by the harness and play a system bus whose manager accepts RestartUnit"]

KMSG = re.compile(r"^oomd kill: \S+ \S+ \S+ (\S*) \d+ ruleset:\[(.*?)\] detectorgroup:\[(.*?)\] killer:(\(dry\))?(\S+) v2")


def cases(seed, tier):
    n = 800 if tier == "quick" else 4000
    rng = random.Random(seed * 1000003 + 4)
    for i in range(n):
        cid = "C04-%d-%d" % (seed, i)
        hooks, hspec = None, {}
        names = ("rk", "g")
        if i % 10 == 9:
            args = {"service": "foo.service"}
            if rng.random() < 0.7:
                args["post_action_delay"] = str(rng.choice([0, 1, 3]))
            cfg = KG.kill_config("systemd_restart", args, {"post_action_delay": str(rng.choice([0, 2, 5]))})
            cgs = {"/": W.root_cgroup()}
            plugin = "systemd_restart"
        else:
            plugin = rng.choice(KG.PLUGINS)
            cgs, info, pids = KG.gen_tree(rng, depth=rng.choice([1, 2, 3]), fan=3, pidcounts=rng.choice([(1, 1, 2, 21), (0, 0, 1, 2), (0, 1)]), unpop_p=0.0, pref_p=0.3, oomgroup_p=0.3)
            pats = KG.patterns_for(rng, info)
            args = KG.kill_args(rng, plugin, pats)
            if rng.random() < 0.2:
                args["kernelkill"] = "true"
            if rng.random() < 0.5:
                args["post_action_delay"] = str(rng.choice([0, 1, 2, 4]))
            rs_extra = {"post_action_delay": str(rng.choice([0, 1, 3, 6]))}
            if rng.random() < 0.3:
                # a prekill hook that needs 1-3 more ticks (or finishes at once / never, then the window closes): the kill is
                # performed by the resume path on a later tick, dry or not
                hooks = [{"name": "v_hook", "args": {"id": "h0", "cgroup": rng.choice(["wl,wl/*,wl/*/*,wl/*/*/*", "wl/*", "/"])}}]
                hspec = {"h0": [{"polls": rng.choice([0, 1, 1, 2, 3, -1])} for _ in range(6)]}
                rs_extra["prekill_hook_timeout"] = str(rng.choice([2, 5, 30]))
            names = (KG.LONG_RS, KG.LONG_GROUP) if rng.random() < 0.1 else ("rk", "g")
            cfg = KG.kill_config(plugin, args, rs_extra, hooks=hooks, rs_name=names[0], group=names[1])
        nticks = rng.randint(4, 6) + (2 if hooks else 0)
        ticks = [{"step_ns": rng.choice([1, 1, 2, 3]) * 10**9} for _ in range(nticks)]
        wet = KG.base_scn(cid + "-wet", cgs, cfg, ticks=ticks, hooks=hspec)
        if plugin == "systemd_restart":
            wet["dbus"] = "ok"  # a system bus whose manager accepts RestartUnit, so the wet run really restarts and STOPs
        dry = copy.deepcopy(wet)
        dry["id"] = cid + "-dry"
        dry["config"]["rulesets"][0]["actions"][1]["args"]["dry"] = "true"
        yield core.Case(cid, [wet, dry], {"plugin": plugin, "args": args, "hook": bool(hooks), "names": names})


def allowed_first(scn, meta, t0):
    """set of first victims the documented policy allows at tick t0 (None = unknown)"""
    from oracles import cgroup as CG, kill as K, path as P
    from checks import c03
    args, plugin = meta["args"], meta["plugin"]
    params = CG.Params(scn)
    hist = CG.History(params)
    w = model.World(scn)
    pats = args["cgroup"].split(",")
    recursive = K.parse_bool(args.get("recursive"))
    for ti in range(t0 + 1):
        w.apply(scn["ticks"][ti].get("ops"))
        view = CG.View(w.snapshot(), params)
        roots = P.resolve_many(pats, view.w.dirs())
        temporal = hist.step(view, c03.queried_set(view, roots, recursive), ti)
    walk = K.Walk(view, temporal, plugin, args, lambda rel: True)
    alts = walk.sequences(roots)
    if walk.overflow or walk.ambiguous:
        return None
    return set(a[0][0] for a in alts if a[0])


def judge(case, results):
    v = core.Verdict()
    for r in results:
        cr = core.classify_crash(r) if r.crashed else core.exception_outcome(r)
        if cr:
            v.bad("crash:" + cr[0], cr[1], cr[2])
            return v
    wet, dry = results
    plugin = case.meta["plugin"]
    # ---- no side effects in the dry run
    for e in dry.events:
        k = e.get("ev")
        if k in ("kill", "setxattr", "pidfd_open", "process_mrelease", "sd_bus_open_system", "sd_bus_call_method"):
            v.bad("dry-side-effect", k, "dry run issued %s" % {x: e[x] for x in e if x not in ("seq", "t")})
        elif k == "write" and e["path"].startswith("/cg"):
            v.bad("dry-side-effect", "write:" + e["path"].rsplit("/", 1)[1], "dry run wrote %r to %s" % (e["data"][:30], e["path"]))
        elif k == "open" and e.get("wr") and e["path"].startswith("/cg"):
            v.bad("dry-side-effect", "open-for-write:" + e["path"].rsplit("/", 1)[1], "dry run opened %s for writing" % e["path"])
    st = dry.end.get("stats", {})
    for key in ("oomd.kills", "oomd.restarts"):
        if st.get(key, 0) != 0:
            v.bad("dry-counter", key, "dry run ended with %s=%s" % (key, st.get(key)))
    winv, dinv = KT.parse(wet.events), KT.parse(dry.events)
    wet_first = next((i for i in winv if i.attempts), None)
    wet_sd = any(e.get("ev") == "sd_bus_open_system" for e in wet.events)
    v.nontrivial = wet_first is not None or wet_sd
    v.sig = core.scn_hash(case.scns[0])
    v.count("plugin:" + plugin)
    if plugin == "systemd_restart":
        lines = [l for i in dinv for l in i.kmsg]
        if not any("(dry)" in l and "foo.service" in l for l in lines):
            v.bad("dry-log-missing", plugin, "dry systemd_restart wrote no `(dry)` kmsg line: %s" % lines)
        calls = [e for e in wet.events if e.get("ev") == "sd_bus_call_method"]
        v.count("wet_restart_calls", len(calls))
        if any(e["member"] != "RestartUnit" or e["args"][:1] != ["foo.service"] for e in calls):
            v.bad("wet-restart-call", plugin, "wet run called %s" % [(e["member"], e["args"]) for e in calls][:3])
        if wet.end.get("stats", {}).get("oomd.restarts", 0) != len(calls):
            v.bad("restart-counter", plugin, "wet run: %d RestartUnit calls accepted, oomd.restarts=%s" % (len(calls), wet.end.get("stats", {}).get("oomd.restarts")))
        # same control flow, tick by tick: the chain starts on the same ticks, the next action never runs (STOP), and each
        # restart is logged once - wet plain, dry marked
        for wi, di in zip(winv, dinv):
            w_, d_ = (wi.pre is not None, wi.post is not None, len(wi.kmsg)), (di.pre is not None, di.post is not None, len(di.kmsg))
            if w_ != d_:
                rule = "dry-pause-differs" if w_[0] != d_[0] else "dry-return-differs" if w_[1] != d_[1] else "dry-log"
                v.bad(rule, plugin, "tick %d: wet (chain started, next action ran, kmsg lines) = %s, dry = %s; args %s, ruleset delay %s" % (
                    wi.tick, w_, d_, case.meta["args"], case.scns[0]["config"]["rulesets"][0].get("post_action_delay")))
                break
        return v
    if wet_first is None:
        # nothing to kill in the wet run: the dry run must not claim a victim either
        if any(KMSG.match(l) for i in dinv for l in i.kmsg):
            v.bad("dry-victim-without-wet-victim", plugin, "dry run logged a victim, wet run attempted nothing")
        return v
    t0 = wet_first.tick
    v.count("wet_attempts", len(wet_first.attempts))
    d0 = dinv[t0]
    dl = [KMSG.match(l) for l in d0.kmsg]
    dl = [m for m in dl if m]
    if len(dl) != 1 or not dl[0].group(4):
        v.bad("dry-log", plugin, "tick %d: dry run kmsg lines %s (expected exactly one `(dry)` line)" % (t0, d0.kmsg))
        return v
    # the victim was chosen on the tick its chain started (earlier than t0 when a prekill hook was pending in between)
    tsel = max((i.tick for i in winv if i.tick <= t0 and i.pre is not None), default=t0)
    if tsel < t0:
        v.count("kill_resumed_after_hook")
    firsts = allowed_first(case.scns[0], case.meta, tsel)
    if firsts is None or len(firsts) != 1:
        v.count("dontcare_tied_first_choice")
    elif dl[0].group(1) != wet_first.attempts[0].victim:
        v.bad("dry-victim-differs", plugin, "tick %d: dry run chose %s, wet run attempted %s first" % (t0, dl[0].group(1), wet_first.attempts[0].victim))
    rsn, grn = case.meta.get("names", ("rk", "g"))
    if len(rsn) > 100:
        v.count("kill_records_over_992_bytes")
    if dl[0].group(5) != plugin or dl[0].group(2) != rsn or dl[0].group(3) != grn:
        v.bad("dry-log-fields", plugin, "dry kmsg line names %s" % (dl[0].groups(),))
    # ---- control flow: post runs identically, next chain start on the same tick
    if (wet_first.post is None) != (d0.post is None):
        v.bad("dry-return-differs", plugin, "tick %d: action after the kill plugin ran wet=%s dry=%s" % (t0, wet_first.post is not None, d0.post is not None))
    wnext = next((i.tick for i in winv if i.tick > t0 and i.pre is not None), None)
    dnext = next((i.tick for i in dinv if i.tick > t0 and i.pre is not None), None)
    if wnext != dnext:
        v.bad("dry-pause-differs", plugin, "first kill at tick %d: next chain start wet=%s dry=%s (args %s)" % (t0, wnext, dnext, case.meta["args"]))
    return v


def sample(case, v):
    s = case.scns[0]
    return {"case": case.id, "plugin": case.meta["plugin"], "args": case.meta["args"], "cgroups": sorted(s["cgroups"].keys()),
            "steps_s": [t["step_ns"] // 10**9 for t in s["ticks"]], "observed": v.stats}
