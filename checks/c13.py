"""C13 Drop-in override semantics: LIFO before base, scoped replacement, reversible."""
import itertools
import json
import random

from vlib import core, pure, world as W

ID = "C13"
LEVEL = "exploration"
FLAVORS = ["asan"]
RULE = ("operation sequences over 2-3 tags through the real DropInServiceAdaptor/Engine (scheduleDropInAdd/Remove -> updateDropIns -> prerun -> "
        "runOnce, one tick after every operation, or several requests queued between two ticks): add / re-add / remove / failing add (unknown target ruleset, overriding a part the base did "
        "not open up, second ruleset of a multi-ruleset file failing, unknown plugin), drop-ins supplying detectors, actions, both, several "
        "rulesets and prekill hooks, base rulesets with all 8 drop-in permission combinations; after each step the tick's call order "
        "(which plugin instances ran, in which order), base enablement, oomd.dropin.added and the hook chosen for probe cgroups must equal "
        "the reference model (LIFO list per base ruleset, fresh instances, all-or-nothing refusal, re-add = replace + move to front, "
        "hooks newest first before base hooks; in a quarter of the sequences base ruleset r2 is a ruleset-level cgroup ruleset, so enabling/disabling has to reach its per-cgroup instance - run order compared); model-free cross-check: a sequence followed by `remove T` equals the same sequence without "
        "T's operations. quick = 300 random sequences <= 6 ops + all sequences <= 2 ops; thorough = ALL sequences <= 4 ops over an 18-letter "
        "alphabet (exhaustive) + 5000 random <= 10. non-trivial = >=2 drop-ins simultaneously active at some step; distinct by sequence")
ASSUMPTIONS = ["scripted plugins always return CONTINUE here, so every active ruleset runs its whole chain each tick",
               "reference model written from docs/drop_in_configs.md and docs/prekill_hooks.md"]
SERIAL_JUDGE = True
MIN_NONTRIVIAL = 1
PROBES = ["x", "y/z"]


def base_config(perm, dup=0):
    """dup=1/2: a second base ruleset that is also called r1 (own plugins b3.*, opposite permissions), right after the first
    or at the end; docs/drop_in_configs.md: 'If there is more than one match, the first base ruleset will be chosen'"""
    scoped = 0
    if len(perm) == 8:
        perm, scoped = perm[:7], perm[7]
    if len(perm) == 7:
        perm, dup = perm[:6], perm[6]
    cfg = base_config0(perm)
    if scoped:
        # r2 (and with it every drop-in copy of r2) is a ruleset-level cgroup ruleset with exactly one matching cgroup (y/z):
        # the tick order is the same, but enabling / disabling has to reach the per-cgroup instance
        cfg["rulesets"][1]["cgroup"] = "y/*"
    if dup:
        d1, a1, dis1 = perm[:3]
        twin = {"name": "r1", "drop-in": {"detectors": not d1, "actions": not a1, "disable-on-drop-in": not dis1}, "post_action_delay": "0",
                "detectors": [["g1", W.det("b3.d1")]], "actions": [W.act("b3.a1")]}
        cfg["rulesets"].insert(1 if dup == 1 else 2, twin)
    return cfg


def base_config0(perm):
    d1, a1, dis1, d2, a2, dis2 = perm
    return {"rulesets": [
        {"name": "r1", "drop-in": {"detectors": d1, "actions": a1, "disable-on-drop-in": dis1}, "post_action_delay": "0",
         "detectors": [["g1", W.det("b1.d1"), W.det("b1.d2")], ["g2", W.det("b1.d3")]], "actions": [W.act("b1.a1"), W.act("b1.a2")]},
        {"name": "r2", "drop-in": {"detectors": d2, "actions": a2, "disable-on-drop-in": dis2}, "post_action_delay": "0",
         "detectors": [["g", W.det("b2.d1")]], "actions": [W.act("b2.a1")]}],
        "prekill_hooks": [{"name": "v_hook", "args": {"id": "bh1", "cgroup": "x"}}, {"name": "v_hook", "args": {"id": "bh2", "cgroup": "/"}}]}


def variant(tag, k, n):
    """drop-in config variants; ids carry tag and a per-sequence counter so every add is distinguishable"""
    u = "%s%d" % (tag, n)
    rs = lambda name, dets=None, acts=None: dict(name=name, **({"detectors": dets} if dets else {}), **({"actions": acts} if acts else {}))
    D = lambda x: [["dg", W.det(u + ".d" + x)]]
    A = lambda x: [W.act(u + ".a" + x)]
    H = lambda x, pat: {"name": "v_hook", "args": {"id": u + ".h" + x, "cgroup": pat}}
    if k == 0:
        return {"rulesets": [rs("r1", dets=D("1"))]}
    if k == 1:
        return {"rulesets": [rs("r1", acts=A("1"))]}
    if k == 2:
        return {"rulesets": [rs("r2", acts=A("1"))], "prekill_hooks": [H("1", "y/*")]}
    if k == 3:
        return {"rulesets": [rs("r1", dets=D("1"), acts=A("1")), rs("r2", dets=D("2"))]}
    if k == 4:
        return {"rulesets": [], "prekill_hooks": [H("1", "x"), H("2", "/")]}
    if k == 5:
        if n % 2 == 0:
            # unknown target after one (two) that resolve: the file is refused as a whole all the same
            return {"rulesets": ([rs("r1", dets=D("3"))] if n % 4 == 0 else []) + [rs("r2", acts=A("2")), rs("nope", acts=A("1"))]}
        return {"rulesets": [rs("nope", acts=A("1"))]}  # unknown target
    if k == 6:
        return {"rulesets": [rs("r2", acts=A("1")), rs("r1", dets=[["dg", {"name": "no_such_plugin", "args": {}}]])], "prekill_hooks": [H("1", "/")]}
    if k == 7:  # one file, two rulesets aimed at the same base ruleset
        return {"rulesets": [rs("r1", acts=A("1")), rs("r1", acts=A("2"))]}
    # 8-10: accepted by compileDropIn, refused by Engine::addDropInConfig (target r3 is known to the adaptor's root only),
    # after zero, one or two rulesets of the same file were already attached
    if k == 8:
        return {"rulesets": [rs("r1", acts=A("1")), rs("r3", acts=A("2"))]}
    if k == 9:
        return {"rulesets": [rs("r2", dets=D("1")), rs("r1", dets=D("2"), acts=A("2")), rs("r3", dets=D("3"))], "prekill_hooks": [H("1", "/")]}
    if k == 10:
        return {"rulesets": [rs("r3", acts=A("1")), rs("r1", acts=A("2"))]}
    raise ValueError(k)


NVAR = 8
NVAR_GHOST = 11
GHOST = {"name": "r3", "drop-in": {"detectors": True, "actions": True}, "detectors": [["g", W.det("b3.d1")]], "actions": [W.act("b3.a1")]}


class Model:
    def __init__(self, base, ghost=False):
        self.base = base
        self.ghost = ghost  # the adaptor's root knows ruleset r3, the engine does not
        self.bases = base["rulesets"]
        self.first = {}  # name -> index of the first base ruleset of that name (the one a drop-in targets)
        for i, r in enumerate(self.bases):
            self.first.setdefault(r["name"], i)
        self.rs = {n: self.bases[i] for n, i in self.first.items()}
        self.order = list(range(len(self.bases)))
        self.dropins = {i: [] for i in self.order}  # newest first: (tag, det ids, act ids)
        self.owner = {}
        for i, r in enumerate(self.bases):
            for x in sum(self.ids(r), []):
                self.owner[x] = i
        self.hooks = []  # newest first: (tag, [(id, pats)])
        self.base_hooks = [(h["args"]["id"], h["args"]["cgroup"]) for h in base.get("prekill_hooks", [])]
        self.engine_refused = 0

    def ids(self, r):
        return [d["args"]["id"] for g in r.get("detectors", []) for d in g[1:]], [a["args"]["id"] for a in r.get("actions", [])]

    def compile_ok(self, cfg):
        for r in cfg.get("rulesets", []):
            b = self.rs.get(r.get("name"))
            if b is None and r.get("name") == "r3" and self.ghost:
                b = GHOST
            if b is None:
                return False
            for g in r.get("detectors", []):
                for d in g[1:]:
                    if d["name"] not in ("v_det", "v_act"):
                        return False
            if r.get("detectors") and not b["drop-in"]["detectors"]:
                return False
            if r.get("actions") and not b["drop-in"]["actions"]:
                return False
        return True

    def remove(self, tag):
        for n in self.order:
            self.dropins[n] = [d for d in self.dropins[n] if d[0] != tag]
        self.hooks = [h for h in self.hooks if h[0] != tag]

    def add(self, tag, cfg):
        if not self.compile_ok(cfg):
            return False  # refused on the scheduling side: nothing queued, engine untouched
        self.remove(tag)
        if any(r["name"] not in self.rs for r in cfg.get("rulesets", [])):
            # queued, then refused by the engine as a whole: what the tag had before is gone (the adaptor removes the tag
            # before it adds), nothing of the new content stays
            self.engine_refused += 1
            return True
        for r in cfg.get("rulesets", []):
            b = self.rs[r["name"]]
            bd, ba = self.ids(b)
            dd, da = self.ids(r)
            self.dropins[self.first[r["name"]]].insert(0, (tag, dd or bd, da or ba))
        hs = [(h["args"]["id"], h["args"]["cgroup"]) for h in cfg.get("prekill_hooks", [])]
        if hs:
            self.hooks.insert(0, (tag, hs))
        return True

    def enabled(self, n):
        return not (self.bases[n]["drop-in"]["disable-on-drop-in"] and self.dropins[n])

    def tick(self):
        pre, run = [], []
        for n in self.order:
            for tag, dd, da in self.dropins[n]:
                pre += dd + da
            if self.enabled(n):
                bd, ba = self.ids(self.bases[n])
                pre += bd + ba
        for n in self.order:
            for tag, dd, da in self.dropins[n]:
                run += dd + da
            if self.enabled(n):
                bd, ba = self.ids(self.bases[n])
                run += bd + ba
        return ["prerun:" + x for x in pre] + ["run:" + x for x in run]

    def added(self):
        return sum(len(v) for v in self.dropins.values())

    def hook_for(self, path):
        from oracles import path as P
        for tag, hs in self.hooks:
            for hid, pats in hs:
                if any(P.hook_match(path, p) for p in pats.split(",")):
                    return hid
        for hid, pats in self.base_hooks:
            if any(P.hook_match(path, p) for p in pats.split(",")):
                return hid
        return ""


def build_ops(seq):
    """an op may carry a 4th element True = no tick after it (several requests queue up before one updateDropIns)"""
    ops, n = [], 0
    for op in seq:
        defer = len(op) > 3 and op[3] or (op[0] == "remove" and len(op) > 2 and op[2])
        if op[0] == "add":
            n += 1
            o = {"op": "add", "tag": op[1], "text": json.dumps(variant(op[1], op[2], n)), "_cfg": variant(op[1], op[2], n)}
        else:
            o = {"op": "remove", "tag": op[1]}
        if defer:
            o["defer"] = True
        ops.append(o)
    if ops and ops[-1].get("defer"):
        ops[-1].pop("defer")  # always finish with a tick
    return ops


def alphabet(tags):
    return [("add", t, k) for t in tags for k in range(NVAR)] + [("remove", t) for t in tags]


def sequences(seed, tier):
    rng = random.Random(seed * 17 + 13)
    quick = tier != "thorough"
    out = []
    al2 = alphabet(["a", "b"])
    maxlen = 2 if quick else 4
    for L in range(1, maxlen + 1):
        for seq in itertools.product(al2, repeat=L):
            out.append(list(seq))
    al3 = alphabet(["a", "b", "c"])
    for _ in range(300 if quick else 5000):
        seq = [rng.choice(al3) for _ in range(rng.randint(3, 6 if quick else 10))]
        if rng.random() < 0.6:
            # several requests between two main-loop ticks
            seq = [(o + (True,)) if rng.random() < 0.5 else o for o in seq]
        out.append(seq)
    # every 3-op sequence over a small alphabet with every pattern of "no tick in between"
    small = [("add", t, k) for t in ("a", "b") for k in (0, 1, 3)] + [("remove", "a"), ("remove", "b")]
    for seq in itertools.product(small, repeat=3):
        for d0 in (False, True):
            for d1 in (False, True):
                if not (d0 or d1):
                    continue
                if quick and rng.random() > 0.35:
                    continue
                out.append([seq[0] + ((True,) if d0 else ()), seq[1] + ((True,) if d1 else ()), seq[2]])
    # engine-level refusals (variants 8-10 need the adaptor root with r3): all short sequences + random ones
    alg = [("add", t, k) for t in ("a", "b") for k in (0, 1, 3, 7, 8, 9, 10)] + [("remove", "a"), ("remove", "b")]
    for L in range(1, (2 if quick else 3) + 1):
        for seq in itertools.product(alg, repeat=L):
            if any(o[0] == "add" and o[2] >= 8 for o in seq):
                out.append(list(seq))
    alg3 = [("add", t, k) for t in ("a", "b", "c") for k in range(NVAR_GHOST)] + [("remove", t) for t in ("a", "b", "c")]
    for _ in range(150 if quick else 3000):
        seq = [rng.choice(alg3) for _ in range(rng.randint(3, 6 if quick else 10))]
        seq[rng.randrange(len(seq))] = ("add", rng.choice("abc"), rng.choice([8, 9, 10]))
        if rng.random() < 0.5:
            seq = [(o + (True,)) if rng.random() < 0.5 else o for o in seq]
        out.append(seq)
    perms = list(itertools.product([True, False], repeat=6))
    res = [(seq, perms[(i * 7 + 3) % 64] if i % 3 else (True, True, i % 2 == 0, False, True, i % 4 == 0)) for i, seq in enumerate(out)]
    # every fifth sequence runs against a base config with two rulesets named r1 (7th element: where the twin sits)
    return [(seq, perm + ((1 + i // 5 % 2,) if i % 5 == 4 else (0,)) + ((1,) if i % 4 == 1 else (0,))) for i, (seq, perm) in enumerate(res)]


def is_ghost(seq):
    return any(o[0] == "add" and o[2] >= 8 for o in seq)


def mkq(base, ops, seq):
    q = {"q": "dropin_seq", "base": json.dumps(base), "ops": [{k: val for k, val in o.items() if k != "_cfg"} for o in ops], "probes": PROBES}
    if is_ghost(seq):
        q["adaptor_base"] = json.dumps(dict(base, rulesets=base["rulesets"] + [GHOST]))
    return q


def cases(seed, tier):
    yield core.Case("C13-seqs", [], {"tier": tier, "seed": seed}, driver="custom")


def run_batch(driver, flavor, scns):
    return []


def strip_inst(t):
    return [x.split("#")[0] for x in t]


def judge(case, results):
    v = core.Verdict()
    seqs = sequences(case.meta["seed"], case.meta["tier"])
    qs, metas = [], []
    for seq, perm in seqs:
        base = base_config(perm)
        ops = build_ops(seq)
        qs.append(mkq(base, ops, seq))
        metas.append((seq, perm, base, ops, False))
        # metamorphic partner: sequence + remove(T) vs sequence without T's ops
        tags = sorted(set(o[1] for o in seq))
        if tags and len(seq) <= 6:
            T = tags[len(seq) % len(tags)]
            ops1 = build_ops(seq) + [{"op": "remove", "tag": T}]
            full = build_ops(seq)
            ops2 = [o for o in full if o["tag"] != T]
            if ops2 and ops2[-1].get("defer"):
                ops2[-1] = {k_: v_ for k_, v_ in ops2[-1].items() if k_ != "defer"}
            for ops_ in (ops1, ops2):
                qs.append(mkq(base, ops_, seq))
                metas.append((seq, perm, base, ops_, True))
    ans = pure.run_queries(qs)
    multi = 0
    i = 0
    nseq = 0
    while i < len(qs):
        seq, perm, base, ops, meta_only = metas[i]
        a, crash = ans[i]
        if crash or a is None or "uncaught" in (a or {}) or "err" in (a or {}):
            ck = pure.crash_key(crash) if crash else ("uncaught", str((a or {}).get("uncaught") or (a or {}).get("err")), str(a)[:500])
            v.bad("crash:" + ck[0], ck[1], "sequence %s perms %s\n%s" % (seq, perm, ck[2]))
            i += 1
            continue
        # with a ruleset-level cgroup on r2 the prerun positions are those of per-cgroup instances (template plugins are prerun too,
        # a new instance is prerun when it is created): C11's business. Here the run order - who is active - is judged.
        vw = (lambda t: [x for x in t if x.startswith("run:")]) if perm[7] else (lambda t: t)
        if not meta_only:
            nseq += 1
            m = Model(base, ghost=is_ghost(seq))
            steps = a["steps"]
            base_insts = {x.split("#")[0].split(":")[1]: x.split("#")[1] for x in steps[0]["tick"]}
            prev = steps[0]
            pending_deferred = False
            for si, (op, st) in enumerate(zip(ops, steps[1:])):
                if st.get("deferred"):
                    # queued only; the model applies it now (the queue is drained in arrival order at the next tick)
                    if op["op"] == "add":
                        ok = m.add(op["tag"], op["_cfg"])
                        if (st["sched"] is True) != ok:
                            v.bad("add-accepted-mismatch", "", "seq %s perms %s step %d: scheduleDropInAdd=%s, model says %s" % (seq, perm, si, st["sched"], ok))
                            break
                    else:
                        m.remove(op["tag"])
                    v.count("deferred_requests")
                    pending_deferred = True
                    continue
                if op["op"] == "add":
                    ok = m.add(op["tag"], op["_cfg"])
                    if (st["sched"] is True) != ok:
                        v.bad("add-accepted-mismatch", "", "seq %s perms %s step %d: scheduleDropInAdd=%s, model says %s (%s)" % (seq, perm, si, st["sched"], ok, op["_cfg"]))
                        break
                    if not ok and not pending_deferred and (vw(st["tick"]) != vw(prev["tick"]) or st["hooks"] != prev["hooks"] or st["added"] != prev["added"]):
                        v.bad("refused-add-left-something", "", "seq %s perms %s step %d: refused add changed the engine: %s -> %s" % (seq, perm, si, strip_inst(prev["tick"]), strip_inst(st["tick"])))
                        break
                else:
                    m.remove(op["tag"])
                want = vw(m.tick())
                got = vw(strip_inst(st["tick"]))
                if got != want:
                    v.bad("evaluation-order", "", "seq %s perms %s after step %d (%s %s): tick order\n   got  %s\n   want %s" % (seq, perm, si, op["op"], op["tag"], got, want))
                    break
                if st["added"] != m.added():
                    v.bad("dropin-added-stat", "", "seq %s perms %s after step %d: oomd.dropin.added=%s, active drop-in rulesets %d" % (seq, perm, si, st["added"], m.added()))
                    break
                for pr in PROBES:
                    if st["hooks"][pr] != m.hook_for(pr):
                        v.bad("hook-priority", "", "seq %s after step %d: cgroup %s got hook %r, expected %r" % (seq, si, pr, st["hooks"][pr], m.hook_for(pr)))
                        break
                # fresh copies: a drop-in's copy of a base plugin is a different instance than the base's
                seen = {}
                for x in st["tick"]:
                    pid_, inst = x.split("#")[0].split(":")[1], x.split("#")[1]
                    seen.setdefault(pid_, set()).add(inst)
                for pid_, insts in seen.items():
                    if pid_ in base_insts and m.enabled(m.owner[pid_]) and base_insts[pid_] not in insts and not (perm[7] and pid_.startswith("b2.")):
                        v.bad("base-instance-replaced", "", "seq %s step %d: base plugin %s no longer runs with its own instance" % (seq, si, pid_))
                if m.added() >= 2:
                    multi += 1
                prev = st
                pending_deferred = False
            v.count("adds_refused_by_engine", m.engine_refused)
            v.count("sequences_with_duplicate_base_name", 1 if perm[6] else 0)
            v.count("sequences_with_ruleset_level_cgroup_base", 1 if perm[7] else 0)
            i += 1
        else:
            a2, crash2 = ans[i + 1]
            if a2 and a and "steps" in a and "steps" in a2:
                f1, f2 = a["steps"][-1], a2["steps"][-1]
                # ids embed a per-sequence counter; compare with the counter erased
                import re
                norm = lambda t: [re.sub(r"^(prerun|run):([abc])\d+\.", r"\1:\2.", x) for x in vw(strip_inst(t))]
                if norm(f1["tick"]) != norm(f2["tick"]) or f1["added"] != f2["added"] or [re.sub(r"\d+\.", ".", h) for h in f1["hooks"].values()] != [re.sub(r"\d+\.", ".", h) for h in f2["hooks"].values()]:
                    v.bad("not-reversible", "", "seq %s perms %s: after removing a tag the engine differs from the same sequence without that tag:\n   with+remove %s added=%s\n   without     %s added=%s" % (
                        seq, perm, norm(f1["tick"]), f1["added"], norm(f2["tick"]), f2["added"]))
                v.count("reversibility_pairs")
            i += 2
    v.count("sequences", nseq)
    v.count("steps_with_2plus_dropins", multi)
    v.nontrivial = multi > 0
    v.sig = "seqs"
    return v


def coverage_extra(cases_, verdicts, tier):
    n = sum(v.stats.get("sequences", 0) for v in verdicts)
    return {"evaluations": n, "distinct_nontrivial": sum(v.stats.get("steps_with_2plus_dropins", 0) for v in verdicts),
            "exhaustive": tier == "thorough", "exhaustive_note": "all op sequences of length <= 4 (thorough) / <= 2 (quick) over 2 tags x 8 drop-in variants + 2 removes"}


def sample(case, v):
    return {"alphabet": [str(x) for x in alphabet(["a"])], "variant0": variant("a", 0, 1), "variant3": variant("a", 3, 1), "observed": v.stats}
