"""Builders for simulated cgroupfs / procfs content in the *kernel's* grammar."""
import random

INT64_MAX = (1 << 63) - 1


def psi_line(kind, a10, a60, a300, total):
    return "%s avg10=%.2f avg60=%.2f avg300=%.2f total=%d" % (kind, a10, a60, a300, total)


def psi(some=(0.0, 0.0, 0.0, 0), full=(0.0, 0.0, 0.0, 0)):
    return psi_line("some", *some) + "\n" + psi_line("full", *full) + "\n"


def psi_legacy(some=(0.0, 0.0, 0.0), full=(0.0, 0.0, 0.0), aggr=0):
    return "aggr %d\nsome %.2f %.2f %.2f\nfull %.2f %.2f %.2f\n" % ((aggr,) + tuple(some) + tuple(full))


MEMSTAT_KEYS = ["anon", "file", "kernel_stack", "slab", "sock", "shmem", "file_mapped", "file_dirty",
                "file_writeback", "inactive_anon", "active_anon", "inactive_file", "active_file",
                "unevictable", "slab_reclaimable", "slab_unreclaimable", "pgfault", "pgmajfault",
                "pgrefill", "pgscan", "pgsteal", "pgactivate", "pgdeactivate", "pglazyfree"]


def memstat(vals=None, order=None):
    d = {k: 0 for k in MEMSTAT_KEYS}
    if vals:
        d.update(vals)
    keys = order or list(d.keys())
    return "".join("%s %d\n" % (k, d[k]) for k in keys)


def lim(v):
    return "max\n" if v is None or v == "max" else "%d\n" % v


def cgroup(current=0, pids=(), populated=None, mem_pressure=None, io_pressure=None, stat=None,
           low=0, minv=0, high=None, maxv=None, swap_current=0, swap_max=None, oom_group=0,
           controllers="cpu io memory pids", iostat="", nr_dying=0, nr_desc=0, extra=None,
           xattrs=None, pids_current=None, high_tmp=False, reclaim=False, kill=True, freeze=True):
    files = {
        "cgroup.controllers": controllers + "\n",
        "cgroup.procs": "".join("%d\n" % p for p in pids),
        "cgroup.events": "populated %d\nfrozen 0\n" % (int(bool(pids)) if populated is None else int(populated)),
        "cgroup.stat": "nr_descendants %d\nnr_dying_descendants %d\n" % (nr_desc, nr_dying),
        "memory.current": "%d\n" % current,
        "memory.pressure": mem_pressure if mem_pressure is not None else psi(),
        "io.pressure": io_pressure if io_pressure is not None else psi(),
        "memory.stat": stat if stat is not None else memstat(),
        "memory.low": lim(low), "memory.min": lim(minv), "memory.high": lim(high), "memory.max": lim(maxv),
        "memory.swap.current": "%d\n" % swap_current, "memory.swap.max": lim(swap_max),
        "memory.oom.group": "%d\n" % oom_group,
        "io.stat": iostat,
        "pids.current": "%d\n" % (len(pids) if pids_current is None else pids_current),
    }
    if high_tmp:
        files["memory.high.tmp"] = "max 0\n"
    if reclaim:
        files["memory.reclaim"] = ""
    if kill:
        files["cgroup.kill"] = ""
    if freeze:
        files["cgroup.freeze"] = "0\n"
    if extra:
        files.update(extra)
    spec = {"files": files}
    if xattrs:
        spec["xattrs"] = xattrs
    return spec


def root_cgroup():
    # the cgroup fs root: has cgroup.controllers (validity probe) but few other files
    return {"files": {"cgroup.controllers": "cpu io memory pids\n", "cgroup.procs": "",
                      "cgroup.stat": "nr_descendants 0\nnr_dying_descendants 0\n"}}


def meminfo(mem_total_kb=16 * 1024 * 1024, mem_free_kb=8 * 1024 * 1024, swap_total_kb=2 * 1024 * 1024,
            swap_free_kb=2 * 1024 * 1024, extra=None):
    d = [("MemTotal", mem_total_kb), ("MemFree", mem_free_kb), ("MemAvailable", mem_free_kb),
         ("Buffers", 1000), ("Cached", 100000), ("SwapCached", 0), ("Active", 5000), ("Inactive", 5000),
         ("SwapTotal", swap_total_kb), ("SwapFree", swap_free_kb)]
    if extra:
        d += list(extra.items())
    return "".join("%s:%s%d kB\n" % (k, " " * max(1, 15 - len(k) - len(str(v))), v) for k, v in d)


def vmstat(vals=None):
    d = {"nr_free_pages": 100000, "pgpgin": 5, "pgpgout": 7, "pswpin": 0, "pswpout": 0,
         "pgscan_kswapd": 0, "pgscan_direct": 0, "pgsteal_kswapd": 0}
    if vals:
        d.update(vals)
    return "".join("%s %d\n" % kv for kv in d.items())


def swaps(entries=((2 * 1024 * 1024, 0),)):
    s = "Filename\t\t\t\tType\t\tSize\tUsed\tPriority\n"
    for i, (size_kb, used_kb) in enumerate(entries):
        s += "/dev/sda%d                               partition\t%d\t%d\t-%d\n" % (i + 2, size_kb, used_kb, i + 2)
    return s


def proc(mem_total_kb=16 * 1024 * 1024, swap_entries=((2 * 1024 * 1024, 0),), swappiness=60, vm=None,
         mem_psi=None, io_psi=None, mem_free_kb=8 * 1024 * 1024):
    st = sum(e[0] for e in swap_entries)
    su = sum(e[1] for e in swap_entries)
    return {
        "meminfo": meminfo(mem_total_kb, mem_free_kb, st, st - su),
        "vmstat": vmstat(vm),
        "swaps": swaps(swap_entries),
        "sys/vm/swappiness": "%d\n" % swappiness,
        "pressure/memory": mem_psi if mem_psi is not None else psi(),
        "pressure/io": io_psi if io_psi is not None else psi(),
    }


def det(i, **kw):
    a = {"id": str(i)}
    a.update({k: str(v) for k, v in kw.items()})
    return {"name": "v_det", "args": a}


def act(i, **kw):
    a = {"id": str(i)}
    a.update({k: str(v) for k, v in kw.items()})
    return {"name": "v_act", "args": a}


def plugin(name, **kw):
    return {"name": name, "args": {k: (v if isinstance(v, str) else str(v).lower() if isinstance(v, bool) else str(v)) for k, v in kw.items()}}
